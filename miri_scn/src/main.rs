//! Concurrent scenario for Miri's seeded scheduler (thorough tier, supplementary to sc_sim):
//! N threads evaluate the same list of calls, each starting at a different offset, with no
//! synchronisation between them. Only Miri's own verdict (data race / UB) is used; results are
//! NOT compared (Miri perturbs float intrinsics on purpose).
//!
//! argv: <calls-file> <threads>      calls-file lines: <ev>\t<placeholder>\t<expr>
use num_complex::Complex;
use rust_decimal::Decimal;
use string_calculator::{eval_complex, eval_decimal, eval_f64, eval_i64, eval_number, Number};

#[derive(Clone)]
struct Call {
    ev: String,
    ph: String,
    expr: String,
}

fn hx(t: &str) -> u64 {
    u64::from_str_radix(t.trim_start_matches("0x"), 16).unwrap_or(0)
}

fn run(c: &Call) -> u8 {
    let r = std::panic::catch_unwind(|| match c.ev.as_str() {
        "f64" => eval_f64(c.expr.clone(), f64::from_bits(hx(&c.ph))).is_ok(),
        "i64" => eval_i64(c.expr.clone(), c.ph.parse().unwrap_or(0)).is_ok(),
        "decimal" => {
            let mut b = [0u8; 16];
            for i in 0..16 {
                b[i] = u8::from_str_radix(c.ph.get(2 * i..2 * i + 2).unwrap_or("00"), 16).unwrap_or(0);
            }
            eval_decimal(c.expr.clone(), Decimal::deserialize(b)).is_ok()
        }
        "complex" => {
            let mut it = c.ph.split(',');
            let re = f64::from_bits(hx(it.next().unwrap_or("0")));
            let im = f64::from_bits(hx(it.next().unwrap_or("0")));
            eval_complex(c.expr.clone(), Complex::new(re, im)).is_ok()
        }
        "number_i" => eval_number(c.expr.clone(), Number::Integer(c.ph.parse().unwrap_or(0))).is_ok(),
        "number_f" => eval_number(c.expr.clone(), Number::Float(f64::from_bits(hx(&c.ph)))).is_ok(),
        _ => false,
    });
    match r {
        Ok(true) => 0,
        Ok(false) => 1,
        Err(_) => 2,
    }
}

fn main() {
    std::panic::set_hook(Box::new(|_| {}));
    let args: Vec<String> = std::env::args().collect();
    let text = std::fs::read_to_string(&args[1]).expect("calls file");
    let threads: usize = args.get(2).and_then(|s| s.parse().ok()).unwrap_or(3);
    let calls: Vec<Call> = text
        .lines()
        .filter_map(|l| {
            let mut it = l.splitn(3, '\t');
            Some(Call { ev: it.next()?.to_string(), ph: it.next()?.to_string(), expr: it.next()?.to_string() })
        })
        .collect();
    let mut hs = Vec::new();
    for t in 0..threads {
        let calls = calls.clone();
        hs.push(std::thread::spawn(move || {
            let n = calls.len();
            let mut tally = [0usize; 3];
            for k in 0..n {
                let c = &calls[(k + t * n / threads.max(1)) % n];
                tally[run(c) as usize] += 1;
            }
            tally
        }));
    }
    let mut tot = [0usize; 3];
    for h in hs {
        let t = h.join().unwrap();
        for i in 0..3 {
            tot[i] += t[i];
        }
    }
    println!("miri scenario done: {} threads x {} calls: ok {} err {} panic {}", threads, calls.len(), tot[0], tot[1], tot[2]);
}
