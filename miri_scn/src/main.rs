//! Concurrent scenario for Miri's seeded scheduler (supplementary to sc_sim): a second simulator
//! that pre-empts at basic-block granularity.
//!
//! Phase A: the main thread evaluates every call once, sequentially -> reference outcomes.
//! Phase B: N threads evaluate the same list (threads 0 and 1 in the same order from the start, the
//! others from an offset), with no synchronisation between them, and compare every outcome with
//! the reference, bit for bit.
//! Verdicts: Miri's own (data race / UB), and `MISMATCH` lines (exit code 42).
//! Must be run with -Zmiri-deterministic-floats: otherwise Miri perturbs float intrinsics at random
//! and equal calls legitimately give different results.
//!
//! argv: <calls-file> <threads>      calls-file lines: <ev>\t<placeholder>\t<expr>
use num_complex::Complex;
use rust_decimal::Decimal;
use string_calculator::{eval_complex, eval_decimal, eval_f64, eval_i64, eval_number, Number};

#[derive(Clone)]
struct Call {
    ev: String,
    ph: String,
    expr: String,
}

fn hx(t: &str) -> u64 {
    u64::from_str_radix(t.trim_start_matches("0x"), 16).unwrap_or(0)
}

fn fmt_err(e: string_calculator::ParseError) -> String {
    match e {
        string_calculator::ParseError::UnableToParse(m) => format!("err UnableToParse {}", m),
        string_calculator::ParseError::InvalidOperator(m) => format!("err InvalidOperator {}", m),
    }
}

fn fmt_num(n: Number) -> String {
    match n {
        Number::Float(f) => format!("ok Float {:016x}", f.to_bits()),
        Number::Integer(i) => format!("ok Integer {}", i),
    }
}

/// The call's outcome in a bit-exact text form.
fn run(c: &Call) -> String {
    let r = std::panic::catch_unwind(|| match c.ev.as_str() {
        "f64" => match eval_f64(c.expr.clone(), f64::from_bits(hx(&c.ph))) {
            Ok(v) => format!("ok {:016x}", v.to_bits()),
            Err(e) => fmt_err(e),
        },
        "i64" => match eval_i64(c.expr.clone(), c.ph.parse().unwrap_or(0)) {
            Ok(v) => format!("ok {}", v),
            Err(e) => fmt_err(e),
        },
        "decimal" => {
            let mut b = [0u8; 16];
            for i in 0..16 {
                b[i] = u8::from_str_radix(c.ph.get(2 * i..2 * i + 2).unwrap_or("00"), 16).unwrap_or(0);
            }
            match eval_decimal(c.expr.clone(), Decimal::deserialize(b)) {
                Ok(v) => format!("ok {:?}", v.serialize()),
                Err(e) => fmt_err(e),
            }
        }
        "complex" => {
            let mut it = c.ph.split(',');
            let re = f64::from_bits(hx(it.next().unwrap_or("0")));
            let im = f64::from_bits(hx(it.next().unwrap_or("0")));
            match eval_complex(c.expr.clone(), Complex::new(re, im)) {
                Ok(v) => format!("ok {:016x} {:016x}", v.re.to_bits(), v.im.to_bits()),
                Err(e) => fmt_err(e),
            }
        }
        "number_i" => match eval_number(c.expr.clone(), Number::Integer(c.ph.parse().unwrap_or(0))) {
            Ok(v) => fmt_num(v),
            Err(e) => fmt_err(e),
        },
        "number_f" => match eval_number(c.expr.clone(), Number::Float(f64::from_bits(hx(&c.ph)))) {
            Ok(v) => fmt_num(v),
            Err(e) => fmt_err(e),
        },
        _ => "unknown evaluator".to_string(),
    });
    match r {
        Ok(s) => s,
        Err(p) => {
            let m = if let Some(s) = p.downcast_ref::<&str>() {
                s.to_string()
            } else if let Some(s) = p.downcast_ref::<String>() {
                s.clone()
            } else {
                String::new()
            };
            format!("panic {}", m)
        }
    }
}

fn main() {
    std::panic::set_hook(Box::new(|_| {}));
    let args: Vec<String> = std::env::args().collect();
    let text = std::fs::read_to_string(&args[1]).expect("calls file");
    let threads: usize = args.get(2).and_then(|s| s.parse().ok()).unwrap_or(3);
    let calls: Vec<Call> = text
        .lines()
        .filter_map(|l| {
            let mut it = l.splitn(3, '\t');
            Some(Call { ev: it.next()?.to_string(), ph: it.next()?.to_string(), expr: it.next()?.to_string() })
        })
        .collect();
    // Phase A: sequential reference
    let reference: Vec<String> = calls.iter().map(run).collect();
    let reference = std::sync::Arc::new(reference);
    // Phase B: concurrent
    let mut hs = Vec::new();
    for t in 0..threads {
        let calls = calls.clone();
        let reference = reference.clone();
        hs.push(std::thread::spawn(move || {
            let n = calls.len();
            let mut bad: Vec<String> = Vec::new();
            for k in 0..n {
                // threads 0 and 1 walk the list in the same order from the start (maximal overlap of equal calls),
                // the others start at an offset
                let i = if t < 2 { k } else { (k + (t - 1) * n / threads.max(1)) % n };
                let got = run(&calls[i]);
                if got != reference[i] {
                    bad.push(format!(
                        "MISMATCH thread={} call={} ev={} ph={} expr={:?} sequential={:?} concurrent={:?}",
                        t, i, calls[i].ev, calls[i].ph, calls[i].expr, reference[i], got
                    ));
                }
            }
            bad
        }));
    }
    let mut bad = Vec::new();
    for h in hs {
        bad.extend(h.join().unwrap());
    }
    for b in &bad {
        println!("{}", b);
    }
    println!("miri scenario done: {} threads x {} calls, {} mismatches", threads, calls.len(), bad.len());
    if !bad.is_empty() {
        std::process::exit(42);
    }
}
