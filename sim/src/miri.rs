//! Supplementary pass: the same kind of concurrent scenario under Miri's seeded scheduler, which
//! pre-empts at basic-block granularity and reports data races. It covers the blind spot of the
//! tick-granularity baton: shared state written and read between two adjacent ticks.
//! Two verdicts count: Miri's own "Data race detected" with a string_calculator frame, and a MISMATCH
//! line of the scenario (a call evaluated concurrently differs from the same call evaluated
//! sequentially in the same Miri process). The pass runs with -Zmiri-deterministic-floats: without it
//! Miri perturbs float intrinsics at random and equal calls legitimately differ.

use crate::gen::Pool;
use crate::types::*;
use serde_json::{json, Value};
use std::io::Read;
use std::process::{Command, Stdio};
use std::time::{Duration, Instant};

pub struct MiriOutcome {
    pub ran: bool,
    pub reason: String,
    pub seeds: usize,
    pub threads: usize,
    pub calls: usize,
    pub failing_seeds: Vec<u64>,
    pub data_race: bool,
    pub mismatch: bool,
    pub other_error: bool,
    pub excerpt: String,
    pub wall_s: f64,
    pub calls_text: String,
}

impl MiriOutcome {
    pub fn to_json(&self) -> Value {
        json!({
            "ran": self.ran, "reason": self.reason, "miri_seeds": self.seeds, "threads": self.threads, "calls_per_thread": self.calls,
            "failing_seeds": self.failing_seeds, "data_race_reported": self.data_race, "result_mismatch_reported": self.mismatch, "other_miri_error": self.other_error,
            "excerpt": self.excerpt, "wall_s": (self.wall_s * 10.0).round() / 10.0,
        })
    }
}

fn ph_field(ph: &Ph) -> (&'static str, String) {
    match ph {
        Ph::F64(b) => ("f64", format!("0x{:x}", b)),
        Ph::I64(v) => ("i64", v.to_string()),
        Ph::Dec(b) => ("decimal", hex(b)),
        Ph::Cx(a, b) => ("complex", format!("0x{:x},0x{:x}", a, b)),
        Ph::NumI(v) => ("number_i", v.to_string()),
        Ph::NumF(b) => ("number_f", format!("0x{:x}", b)),
    }
}

/// A small workload for Miri: cheap calls from the pool, all five evaluators, Ok / Err / panicking ones.
pub fn miri_calls(pool: &Pool, seed: u64, n: usize) -> String {
    // n/5 cheap calls per evaluator, most of them containing `@`; the calls of one evaluator are adjacent in
    // the list, and the scenario's threads walk the list in the same order, so that at any moment several
    // threads are inside the same evaluator (often the same expression) with different progress
    let mut r = Rng::new(mix(seed, 0x6d69_7269));
    let mut out = String::new();
    let per = (n / 5).max(1);
    for ev in ALL_EV {
        let mut count = 0;
        let mut guard = 0;
        while count < per && guard < per * 400 {
            guard += 1;
            let e = &pool.entries[r.below(pool.entries.len())];
            // cheap calls only (Miri is ~1000x slower than native): short texts, few ticks (the tick scale depends on
            // whether the simulator build counts block and memory ticks)
            let tick_limit = if crate::tick::bb_guards() > 0 { 40_000 } else { 120 };
            if e.call.ev != ev || e.ticks > tick_limit || e.call.expr.chars().count() > 28 || e.call.expr.contains('\t') || e.call.expr.contains('\n') || e.call.expr.contains('\r') {
                continue;
            }
            if !e.call.expr.contains('@') && r.chance(0.7) {
                continue;
            }
            let (evn, ph) = ph_field(&e.call.ph);
            out.push_str(&format!("{}\t{}\t{}\n", evn, ph, e.call.expr));
            count += 1;
        }
    }
    out
}

fn run_with_timeout(mut cmd: Command, timeout: Duration) -> Option<(i32, String)> {
    cmd.stdin(Stdio::null()).stdout(Stdio::piped()).stderr(Stdio::piped());
    let mut child = cmd.spawn().ok()?;
    let mut so = child.stdout.take()?;
    let mut se = child.stderr.take()?;
    // read both pipes on helper threads so that the child never blocks on a full pipe
    let h1 = std::thread::spawn(move || {
        let mut s = String::new();
        let _ = so.read_to_string(&mut s);
        s
    });
    let h2 = std::thread::spawn(move || {
        let mut s = String::new();
        let _ = se.read_to_string(&mut s);
        s
    });
    let t0 = Instant::now();
    let code;
    loop {
        match child.try_wait() {
            Ok(Some(st)) => {
                code = st.code().unwrap_or(-1);
                break;
            }
            Ok(None) => {
                if t0.elapsed() > timeout {
                    let _ = child.kill();
                    let _ = child.wait();
                    code = -9;
                    break;
                }
                std::thread::sleep(Duration::from_millis(50));
            }
            Err(_) => return None,
        }
    }
    let a = h1.join().unwrap_or_default();
    let b = h2.join().unwrap_or_default();
    Some((code, format!("{}\n{}", a, b)))
}

fn excerpt_of(out: &str) -> String {
    // the first error block, shortened
    if let Some(i) = out.find("error:") {
        let s: String = out[i..].lines().take(14).collect::<Vec<_>>().join("\n");
        return s.chars().take(1500).collect();
    }
    out.lines().rev().take(6).collect::<Vec<_>>().into_iter().rev().collect::<Vec<_>>().join("\n")
}

pub fn run_miri(verif: &str, calls_text: &str, threads: usize, seeds: &str, timeout: Duration) -> MiriOutcome {
    let t0 = Instant::now();
    let ncalls = calls_text.lines().count();
    let mut mo = MiriOutcome {
        ran: false,
        reason: String::new(),
        seeds: 0,
        threads,
        calls: ncalls,
        failing_seeds: Vec::new(),
        data_race: false,
        mismatch: false,
        other_error: false,
        excerpt: String::new(),
        wall_s: 0.0,
        calls_text: calls_text.to_string(),
    };
    let work = format!("{}/.work", verif);
    let _ = std::fs::create_dir_all(&work);
    let file = format!("{}/miri_calls_{}.txt", work, std::process::id());
    if std::fs::write(&file, calls_text).is_err() {
        mo.reason = "cannot write the calls file".into();
        return mo;
    }
    let mut cmd = Command::new("cargo");
    cmd.arg("+nightly")
        .arg("miri")
        .arg("run")
        .arg("--offline")
        .arg("--quiet")
        .arg("--manifest-path")
        .arg(format!("{}/miri_scn/Cargo.toml", verif))
        .arg("--")
        .arg(&file)
        .arg(threads.to_string())
        .env("MIRIFLAGS", format!("-Zmiri-disable-isolation -Zmiri-deterministic-floats -Zmiri-preemption-rate=0.1 {}", seeds))
        .env("CARGO_NET_OFFLINE", "true")
        .current_dir(format!("{}/miri_scn", verif));
    let res = run_with_timeout(cmd, timeout);
    let _ = std::fs::remove_file(&file);
    mo.wall_s = t0.elapsed().as_secs_f64();
    let (code, out) = match res {
        Some(x) => x,
        None => {
            mo.reason = "cargo +nightly miri could not be started".into();
            return mo;
        }
    };
    if code == -9 {
        mo.reason = format!("Miri pass exceeded its time limit of {} s", timeout.as_secs());
        return mo;
    }
    let done = out.matches("miri scenario done").count();
    for l in out.lines() {
        if let Some(r) = l.trim().strip_prefix("FAILING SEED:") {
            if let Ok(s) = r.trim().parse::<u64>() {
                mo.failing_seeds.push(s);
            }
        }
    }
    mo.failing_seeds.sort();
    let mismatch_lines: Vec<&str> = out.lines().filter(|l| l.starts_with("MISMATCH ")).collect();
    let has_error = out.contains("error: Undefined Behavior") || out.contains("Data race detected") || !mo.failing_seeds.is_empty() || !mismatch_lines.is_empty();
    if done == 0 && !has_error {
        mo.reason = format!("Miri did not run the scenario (exit code {}): {}", code, excerpt_of(&out).chars().take(400).collect::<String>());
        return mo;
    }
    mo.ran = true;
    // seeds that ended in a mismatch still print their "done" line; seeds stopped by a Miri error do not
    let done_with_mismatch = out.lines().filter(|l| l.starts_with("miri scenario done") && !l.trim_end().ends_with(" 0 mismatches")).count();
    mo.seeds = done + mo.failing_seeds.len().saturating_sub(done_with_mismatch);
    if out.contains("Data race detected") && out.contains("string_calculator::") {
        mo.data_race = true;
        mo.excerpt = excerpt_of(&out);
    } else if !mismatch_lines.is_empty() {
        // a call evaluated while other threads were evaluating gave a different outcome than the same call
        // evaluated sequentially in the same process (floats are deterministic under -Zmiri-deterministic-floats)
        mo.mismatch = true;
        mo.excerpt = mismatch_lines.iter().take(4).map(|l| l.chars().take(400).collect::<String>()).collect::<Vec<_>>().join("\n");
    } else if has_error {
        mo.other_error = true;
        mo.excerpt = excerpt_of(&out);
    }
    mo
}

/// Shrink the Miri workload (fewer calls, fewer threads) while some Miri seed still reports the same kind of
/// finding. Every candidate is a fresh `cargo miri run` over a few seeds; budgeted.
pub fn minimise_miri(verif: &str, first: &MiriOutcome, budget: Duration) -> (String, usize, Vec<u64>, String, usize) {
    let t0 = Instant::now();
    let want_race = first.data_race;
    let mut lines: Vec<String> = first.calls_text.lines().map(|l| l.to_string()).collect();
    let mut threads = first.threads;
    let mut failing = first.failing_seeds.clone();
    let mut excerpt = first.excerpt.clone();
    let mut tried = 0usize;
    let seeds = "-Zmiri-many-seeds=0..6 -Zmiri-many-seeds-keep-going";
    let same = |m: &MiriOutcome| m.ran && ((want_race && m.data_race) || (!want_race && m.mismatch));
    let attempt = |cand: &Vec<String>, th: usize, tried: &mut usize| -> Option<MiriOutcome> {
        *tried += 1;
        let text = cand.join("\n") + "\n";
        let m = run_miri(verif, &text, th, seeds, Duration::from_secs(120));
        if same(&m) {
            Some(m)
        } else {
            None
        }
    };
    if threads > 2 && t0.elapsed() < budget {
        if let Some(m) = attempt(&lines, 2, &mut tried) {
            threads = 2;
            failing = m.failing_seeds.clone();
            excerpt = m.excerpt.clone();
        }
    }
    let mut chunk = (lines.len() + 1) / 2;
    while chunk >= 1 && lines.len() > 1 && t0.elapsed() < budget {
        let mut progressed = false;
        let mut a = 0;
        while a < lines.len() && lines.len() > 1 && t0.elapsed() < budget {
            let b = (a + chunk).min(lines.len());
            let mut cand = lines.clone();
            cand.drain(a..b);
            if cand.is_empty() {
                a = b;
                continue;
            }
            if let Some(m) = attempt(&cand, threads, &mut tried) {
                lines = cand;
                failing = m.failing_seeds.clone();
                excerpt = m.excerpt.clone();
                progressed = true;
            } else {
                a = b;
            }
        }
        if !progressed {
            if chunk == 1 {
                break;
            }
            chunk = (chunk + 1) / 2;
        } else {
            chunk = chunk.min(lines.len().max(1));
        }
    }
    (lines.join("\n") + "\n", threads, failing, excerpt, tried)
}
