//! Workload vocabulary: the call pool (expressions x placeholders per evaluator).
//! Everything is derived from one seed; containers are Vec/BTreeMap only.

use crate::types::*;
use rust_decimal::Decimal;
use std::collections::{BTreeMap, BTreeSet};

struct Vocab {
    unary: Vec<&'static str>,
    binary: Vec<&'static str>,
    aggr: Vec<&'static str>,
    binops: Vec<&'static str>,
    postfix: Vec<&'static str>,
    consts: Vec<&'static str>,
    brackets: bool,
    floats: bool,
}

const TRIG: [&str; 15] = [
    "sin", "asin", "cos", "acos", "tan", "atan", "sinh", "asinh", "arsinh", "cosh", "acosh", "arcosh", "tanh",
    "atanh", "artanh",
];

fn vocab(ev: Option<Ev>) -> Vocab {
    let mut unary = vec!["abs", "sqrt", "exp", "exp2", "ln", "lb"];
    let mut binary = vec!["pow", "root", "log"];
    let mut aggr: Vec<&'static str> = vec![];
    let mut binops = vec!["+", "-", "*", "/", "^"];
    let mut postfix = vec!["²", "³", "¹⁰", "⁰", "⁴"];
    let mut consts: Vec<&'static str> = vec![];
    let mut brackets = false;
    let mut floats = false;
    match ev {
        None => {}
        Some(Ev::F64) | Some(Ev::Num) => {
            unary.extend(["sgn", "sign", "signum", "trunc", "truncate", "floor", "ceil", "round", "w", "lambert_w"]);
            unary.extend(TRIG);
            binary.extend(["mod", "atan2", "ilog"]);
            aggr.extend(["min", "max", "avg", "med", "median"]);
            binops.push("%");
            postfix.extend(["!", "°", "rad"]);
            consts.extend(["pi", "π", "e"]);
            brackets = true;
            floats = true;
        }
        Some(Ev::I64) => {
            unary.extend(["sgn", "sign", "signum"]);
            binary.extend(["mod"]);
            aggr.extend(["min", "max", "avg", "med", "median", "gcd", "lcm"]);
            binops.extend(["%", "<<", ">>", "&", "|"]);
            postfix.push("!");
        }
        Some(Ev::Dec) => {
            unary.extend(["sgn", "sign", "signum", "trunc", "truncate", "floor", "ceil", "round", "w", "lambert_w"]);
            binary.extend(["mod", "ilog"]);
            aggr.extend(["min", "max", "avg", "med", "median"]);
            binops.push("%");
            postfix.push("!");
            consts.extend(["pi", "π", "e"]);
            brackets = true;
            floats = true;
        }
        Some(Ev::Cx) => {
            unary.extend(TRIG);
            postfix.extend(["°", "rad"]);
            consts.extend(["pi", "π", "e", "i"]);
            floats = true;
        }
    }
    Vocab { unary, binary, aggr, binops, postfix, consts, brackets, floats }
}

fn gen_leaf(r: &mut Rng, v: &Vocab, ans_p: f64) -> String {
    if r.chance(ans_p) {
        return "@".into();
    }
    if !v.consts.is_empty() && r.chance(0.12) {
        return r.pick(&v.consts).to_string();
    }
    let ints = ["0", "1", "2", "3", "4", "5", "7", "10", "12", "16", "100", "255"];
    let fl = ["0.5", "1.5", "2.25", ".75", "3.14159", "0.1", "10.0", "1e"];
    if v.floats && r.chance(0.3) {
        return r.pick(&fl).to_string();
    }
    if r.chance(0.06) {
        return ["1000000", "4294967296", "9007199254740993", "9223372036854775807"][r.below(4)].to_string();
    }
    r.pick(&ints).to_string()
}

fn gen_expr(r: &mut Rng, v: &Vocab, depth: usize, ans_p: f64) -> String {
    if depth == 0 || r.chance(0.18) {
        return gen_leaf(r, v, ans_p);
    }
    let k = r.below(100);
    if k < 38 {
        let op = r.pick(&v.binops).to_string();
        let a = gen_expr(r, v, depth - 1, ans_p);
        let b = gen_expr(r, v, depth - 1, ans_p);
        format!("{}{}{}", a, op, b)
    } else if k < 56 {
        let f = r.pick(&v.unary).to_string();
        format!("{}({})", f, gen_expr(r, v, depth - 1, ans_p))
    } else if k < 66 {
        let f = r.pick(&v.binary).to_string();
        format!("{}({},{})", f, gen_expr(r, v, depth - 1, ans_p), gen_expr(r, v, depth - 1, ans_p))
    } else if k < 76 && !v.aggr.is_empty() {
        let f = r.pick(&v.aggr).to_string();
        let n = [0usize, 1, 2, 2, 3, 3, 4, 6][r.below(8)];
        let args: Vec<String> = (0..n).map(|_| gen_expr(r, v, depth - 1, ans_p)).collect();
        format!("{}({})", f, args.join(","))
    } else if k < 84 {
        let p = r.pick(&v.postfix).to_string();
        let a = gen_expr(r, v, depth - 1, ans_p);
        if a.len() > 1 {
            format!("({}){}", a, p)
        } else {
            format!("{}{}", a, p)
        }
    } else if k < 90 {
        let a = gen_expr(r, v, depth - 1, ans_p);
        if r.chance(0.5) {
            format!("-{}", a)
        } else {
            format!("-({})", a)
        }
    } else if k < 95 {
        // juxtaposition
        let a = gen_expr(r, v, depth - 1, ans_p);
        let n = ["2", "3", "10", "0.5"][r.below(if v.floats { 4 } else { 3 })];
        match r.below(3) {
            0 => format!("{}({})", n, a),
            1 => format!("({})({})", a, gen_expr(r, v, depth - 1, ans_p)),
            _ => format!("{}{}({})", n, r.pick(&v.unary), a),
        }
    } else {
        let a = gen_expr(r, v, depth - 1, ans_p);
        if v.brackets {
            match r.below(3) {
                0 => format!("⌊{}⌋", a),
                1 => format!("⌈{}⌉", a),
                _ => format!("({})", a),
            }
        } else {
            format!("({})", a)
        }
    }
}

fn sprinkle_ws(r: &mut Rng, s: &str) -> String {
    let ws = [' ', ' ', '\t', '\u{00a0}', '\u{2003}', '\n'];
    let mut out = String::new();
    for c in s.chars() {
        if r.chance(0.08) {
            out.push(*r.pick(&ws));
        }
        out.push(c);
    }
    out
}

fn malform(r: &mut Rng, s: &str) -> String {
    let chars: Vec<char> = s.chars().collect();
    if chars.is_empty() {
        return "$".into();
    }
    let i = r.below(chars.len());
    let junk = ['$', '#', 'x', ')', '(', ',', '.', '?', 'q', '⌋', '!', '@'];
    let mut c = chars.clone();
    if r.chance(0.25) {
        // numeric-literal trouble: the places where the tokenizers `.unwrap()` a parse
        let junk_lits = ["1.2.3", "1..2", ".5.5", "99999999999999999999", "0.0.0", "3.", "12345678901234567890123456789012345", "1.e", "7.7.7+1", "3,14", "1,5+@", "2,5*@", "0,5"];
        let lit: Vec<char> = r.pick(&junk_lits).chars().collect();
        // replace the first digit run, or append
        if let Some(p) = c.iter().position(|x| x.is_ascii_digit()) {
            let mut q = p;
            while q < c.len() && (c[q].is_ascii_digit() || c[q] == '.') {
                q += 1;
            }
            c.splice(p..q, lit);
        } else {
            c.push('+');
            c.extend(lit);
        }
        return c.into_iter().collect();
    }
    match r.below(6) {
        0 => {
            c.remove(i);
        }
        1 => c.insert(i, *r.pick(&junk)),
        2 => c.truncate(i),
        3 => c.push(*r.pick(&['+', '*', '(', ',', '^'])),
        4 => {
            // unbalance a bracket
            if let Some(p) = c.iter().rposition(|x| *x == ')') {
                c.remove(p);
            } else {
                c.push(')');
            }
        }
        _ => c[i] = *r.pick(&junk),
    }
    c.into_iter().collect()
}

fn dec_bits(m: i128, scale: u32) -> [u8; 16] {
    Decimal::from_i128_with_scale(m, scale).serialize()
}

/// Extreme shapes: deep nesting, long flat chains, wide aggregates, long digit and superscript runs.
/// Lengths up to 256 characters (the bound the properties quantify over).
fn gen_extreme(r: &mut Rng, v: &Vocab) -> String {
    let leaf = |r: &mut Rng| if r.chance(0.5) { "@".to_string() } else { ["1", "2", "3", "7", "10"][r.below(5)].to_string() };
    let ops: Vec<&str> = v.binops.iter().copied().filter(|o| ["+", "-", "*"].contains(o)).collect();
    match r.below(10) {
        8 if !v.aggr.is_empty() => {
            // towers of small-arity aggregates: min(max(@)), max(1+min(@)), avg(min(@,1),max(2)) ...
            fn tower(r: &mut Rng, v: &Vocab, d: usize) -> String {
                if d == 0 {
                    return if r.chance(0.6) { "@".to_string() } else { ["1", "2", "5"][r.below(3)].to_string() };
                }
                let f = r.pick(&v.aggr).to_string();
                let n = [1usize, 1, 1, 2, 2, 3][r.below(6)];
                let args: Vec<String> = (0..n)
                    .map(|i| {
                        let inner = if i == 0 || r.chance(0.4) { tower(r, v, d - 1) } else { tower(r, v, 0) };
                        match r.below(4) {
                            0 => format!("1+{}", inner),
                            1 => format!("{}^2", inner),
                            _ => inner,
                        }
                    })
                    .collect();
                format!("{}({})", f, args.join(","))
            }
            let d = [2usize, 2, 3, 4][r.below(4)];
            let t = tower(r, v, d);
            if r.chance(0.4) {
                // several aggregates in one expression
                let d2 = [1usize, 1, 2][r.below(3)];
                format!("{}+{}", t, tower(r, v, d2))
            } else {
                t
            }
        }
        9 => {
            // two or more aggregates / function calls side by side
            if v.aggr.is_empty() {
                format!("{}(@)+{}(@+1)", v.unary[r.below(v.unary.len())], v.unary[r.below(v.unary.len())])
            } else {
                let a = r.pick(&v.aggr).to_string();
                let b = r.pick(&v.aggr).to_string();
                format!("{}(1,2)+{}(3,4)", a, b).replace("1,2", ["1,2", "@,1", "@"][r.below(3)])
            }
        }
        0 => {
            // deep parentheses: depth 2..=124
            let d = [2usize, 5, 16, 31, 32, 33, 60, 62, 63, 64, 65, 66, 70, 90, 120, 124, 125, 126, 127, 127][r.below(20)];
            format!("{}{}{}", "(".repeat(d), leaf(r), ")".repeat(d))
        }
        1 => {
            // deep parentheses with an operator at every level: ((((@+1)+1)+1)...
            let d = [3usize, 10, 20, 30, 40, 50, 60][r.below(7)];
            let op = r.pick(&ops).to_string();
            let mut s = leaf(r);
            for _ in 0..d {
                s = format!("({}{}1)", s, op);
            }
            s
        }
        2 => {
            // chain of unary functions / signs
            let d = [3usize, 8, 20, 40, 64, 80][r.below(6)];
            if r.chance(0.5) {
                format!("{}{}", "-".repeat(d), leaf(r))
            } else {
                let f = r.pick(&v.unary).to_string();
                let d = d.min(250 / (f.len() + 2));
                format!("{}{}{}", format!("{}(", f).repeat(d), leaf(r), ")".repeat(d))
            }
        }
        3 => {
            // long flat chain
            let n = [10usize, 20, 33, 40, 64, 80, 120][r.below(7)];
            let op = r.pick(&ops).to_string();
            let mut s = leaf(r);
            for i in 0..n {
                s.push_str(&op);
                if i % 7 == 3 {
                    s.push('@');
                } else {
                    s.push_str(["1", "2", "3"][i % 3]);
                }
            }
            s
        }
        4 if !v.aggr.is_empty() => {
            // wide aggregate
            let n = [7usize, 8, 9, 12, 16, 17, 25, 32, 40, 63, 64, 65, 100, 120][r.below(14)];
            let f = r.pick(&v.aggr).to_string();
            let args: Vec<String> = (0..n)
                .map(|i| {
                    if n > 40 {
                        // many short arguments (the text must stay within 256 characters)
                        match i % 3 {
                            0 => "@".to_string(),
                            1 => if v.floats { format!(".{}", 1 + i % 9) } else { format!("{}", i % 10) },
                            _ => format!("{}", i % 7),
                        }
                    } else {
                        match i % 4 {
                            0 => "@".to_string(),
                            1 => format!("@+{}", i),
                            2 => format!("{}", i * 3 % 11),
                            _ => format!("{}*@", i),
                        }
                    }
                })
                .collect();
            format!("{}({})", f, args.join(","))
        }
        5 => {
            // long digit run / long superscript run
            let n = [5usize, 15, 16, 17, 18, 19, 20, 30, 40][r.below(9)];
            let digits: String = (0..n).map(|i| char::from(b'1' + ((i * 7 + 3) % 9) as u8)).collect();
            match r.below(3) {
                0 => format!("{}+@", digits),
                1 => {
                    let sup: String = digits.chars().take(n.min(6)).map(|c| ['⁰', '¹', '²', '³', '⁴', '⁵', '⁶', '⁷', '⁸', '⁹'][c as usize - '0' as usize]).collect();
                    format!("@{}", sup)
                }
                _ => {
                    if v.floats {
                        format!("0.{}*@", digits)
                    } else {
                        format!("{}-@", digits)
                    }
                }
            }
        }
        6 => {
            // nested brackets of mixed kinds with juxtaposition
            let d = [3usize, 6, 12, 24][r.below(4)];
            let mut s = leaf(r);
            for i in 0..d {
                s = if v.brackets && i % 3 == 1 {
                    format!("⌊{}⌋", s)
                } else if v.brackets && i % 3 == 2 {
                    format!("⌈{}⌉", s)
                } else {
                    format!("2({})", s)
                };
            }
            s
        }
        _ => {
            // a sum of many function calls
            let n = [6usize, 12, 20][r.below(3)];
            let parts: Vec<String> = (0..n).map(|i| format!("{}(@+{})", v.unary[i % v.unary.len()], i)).collect();
            parts.join("+")
        }
    }
}

/// Placeholder values for an evaluator; index 0 is the type's default value.
pub fn placeholders(r: &mut Rng, ev: Ev) -> Vec<Ph> {
    let fb = |x: f64| x.to_bits();
    let fl: Vec<f64> = vec![
        0.0,
        1.0,
        -1.0,
        0.5,
        2.5,
        -0.0,
        f64::NAN,
        f64::INFINITY,
        f64::NEG_INFINITY,
        9007199254740991.0,
        9007199254740993.0,
        1e308,
        5e-324,
        std::f64::consts::PI,
        3.0,
        -7.25,
        (r.unit() * 20.0 - 10.0),
        (r.unit() * 2000.0 - 1000.0).round(),
        r.unit(),
        // domain limits of the functions: largest factorial / exp / exp2 argument with a finite result, and neighbours;
        // mid-range arguments that make loops long
        20.0, 21.0, 33.0, 100.0, 150.0, 170.0, 171.0, 709.0, 710.0, 1023.0, 1024.0, 64.0, 1000.0,
    ];
    // NaNs are not one value: sign, quiet bit and payload are all part of "bit for bit"
    let nans: [u64; 4] = [0xfff8_0000_0000_0000, 0x7ff8_0000_0000_0001, 0x7ff0_0000_0000_0001, 0x7ffc_dead_beef_0001];
    match ev {
        Ev::F64 => fl.iter().map(|x| Ph::F64(fb(*x))).chain(nans.iter().map(|b| Ph::F64(*b))).chain([Ph::F64(fb(5e-324)), Ph::F64(fb(-5e-324)), Ph::F64(fb(2.2250738585072014e-308))]).collect(),
        Ev::I64 => {
            let mut v: Vec<i64> = vec![0, 1, -1, 2, 3, 7, 10, -5, 64, 1000, i64::MAX, i64::MIN, i64::MAX - 1, 1 << 53, (1 << 53) + 1, (1 << 53) - 1, 1 << 31, (1 << 32) + 1, 3002399751580331, -(1 << 53) - 1];
            v.push((r.next() % 2001) as i64 - 1000);
            v.push(r.next() as i64);
            v.extend([20, 21, 33, 43, 44, 62, 63, 65, 100, 150, 170, 171, 255, 256, 4096]);
            v.into_iter().map(Ph::I64).collect()
        }
        Ev::Dec => {
            let mut v = vec![
                dec_bits(0, 0),
                dec_bits(1, 0),
                dec_bits(-1, 0),
                dec_bits(10, 1),
                dec_bits(250, 2),
                dec_bits(1, 3),
                dec_bits(0, 5),
                dec_bits(-725, 2),
                dec_bits(3, 0),
                Decimal::MAX.serialize(),
                Decimal::MIN.serialize(),
                dec_bits(1, 28),
                dec_bits(31415926535897932384626433, 25),
            ];
            for k in [20i128, 27, 28, 33, 64, 100, 170, 1000] {
                v.push(dec_bits(k, 0));
            }
            v.push(dec_bits((r.next() % 200001) as i128 - 100000, (r.next() % 6) as u32));
            v.push(dec_bits((r.next() >> 4) as i128, (r.next() % 20) as u32));
            v.into_iter().map(Ph::Dec).collect()
        }
        Ev::Cx => {
            let mut v = vec![(0.0, 0.0), (1.0, 0.0), (0.0, 1.0), (1.5, -2.5), (-1.0, 0.0), (f64::NAN, 0.0), (2.0, 3.0)];
            v.push((0.0, -0.0));
            v.push((f64::INFINITY, 1.0));
            v.push((r.unit() * 4.0 - 2.0, r.unit() * 4.0 - 2.0));
            v.push((r.unit(), 0.0));
            v.extend([(-2.0, 0.0), (-8.0, 0.0), (64.0, 0.0), (100.0, 0.0), (170.0, 0.0), (171.0, 0.0), (709.0, 0.0), (0.0, 710.0), (-1.0, 1e-15)]);
            let mut out: Vec<Ph> = v.into_iter().map(|(a, b)| Ph::Cx(fb(a), fb(b))).collect();
            out.push(Ph::Cx(nans[0], 0));
            out.push(Ph::Cx(nans[1], fb(1.0)));
            out.push(Ph::Cx(fb(1.0), nans[0]));
            out.push(Ph::Cx(fb(-0.0), fb(-0.0)));
            out
        }
        Ev::Num => {
            let mut v = vec![Ph::NumI(0), Ph::NumF(0), Ph::NumI(1), Ph::NumI(-1), Ph::NumI(3), Ph::NumI(10)];
            for x in [0.5, 2.0, -0.0, f64::NAN, f64::INFINITY, 2.5, -7.25, 1e300] {
                v.push(Ph::NumF(fb(x)));
            }
            v.push(Ph::NumI(i64::MAX));
            v.push(Ph::NumI(i64::MIN));
            // integers that are distinct as i64 but collide (or round) as f64
            for x in [1i64 << 53, (1 << 53) + 1, (1 << 53) - 1, i64::MAX - 1, 3002399751580331, -(1 << 53) - 1, 1 << 31, (1 << 32) + 1] {
                v.push(Ph::NumI(x));
            }
            v.push(Ph::NumF(nans[0]));
            v.push(Ph::NumF(nans[1]));
            v.push(Ph::NumF(nans[3]));
            v.push(Ph::NumF(fb(9007199254740992.0)));
            v.push(Ph::NumF(fb(4294967296.0)));
            v.push(Ph::NumI((r.next() % 2001) as i64 - 1000));
            v.push(Ph::NumF(fb(r.unit() * 20.0 - 10.0)));
            for k in [20i64, 21, 33, 64, 100, 150, 170, 171, 1000] {
                v.push(Ph::NumI(k));
            }
            for x in [170.0, 171.0, 709.0, 710.0, 100.0] {
                v.push(Ph::NumF(fb(x)));
            }
            v
        }
    }
}

/// "Relatives" of a placeholder value: values whose machine representation is the base value's under one of the
/// transformations a too-weak key loses or confuses - truncation to a narrower width (v, v +- 2^k, zero- against
/// sign-extension), a dropped sign, dropped low bits (rounding to f32, +-1 ulp, one flipped bit), swapped or folded
/// halves / components (xor- and add-folds collide on swapped and on equally-perturbed pairs), and values that are
/// equal as numbers but not as bits (1.0 / 1.00 as Decimal, 3 / 3.0 as Number). A result memoised per argument
/// under such a key is returned for the relative too; evaluated back to back with the base on one thread, the
/// second call then differs from its isolated evaluation.
pub fn relatives(r: &mut Rng, p: Ph, n_random: usize) -> Vec<Ph> {
    fn f64_op(r: &mut Rng, b: u64, op: usize) -> u64 {
        let x = f64::from_bits(b);
        match op {
            0 => b ^ (1u64 << 63),
            1 => b ^ (1u64 << r.below(8)),
            2 => b ^ (1u64 << r.below(64)),
            3 => if r.chance(0.5) { b.wrapping_add(1) } else { b.wrapping_sub(1) },
            4 => ((x as f32) as f64).to_bits(),
            5 => x.trunc().to_bits(),
            6 => (if r.chance(0.5) { x + 4294967296.0 } else { x - 4294967296.0 }).to_bits(),
            7 => b.rotate_left(32),
            _ => b,
        }
    }
    fn i64_fixed(v: i64) -> Vec<i64> {
        vec![v.wrapping_add(1 << 32), v.wrapping_sub(1 << 32), (v as u32) as i64, (v as i32) as i64, v.wrapping_neg()]
    }
    fn i64_op(r: &mut Rng, v: i64) -> i64 {
        match r.below(10) {
            0 => v.wrapping_add(1i64 << [8, 16, 31, 48, 63][r.below(5)]),
            1 => v.wrapping_sub(1i64 << [8, 16, 31, 48, 63][r.below(5)]),
            2 => (v as u16) as i64,
            3 => (v as i16) as i64,
            4 => (v as u8) as i64,
            5 => (v as i8) as i64,
            6 => !v,
            7 => v ^ (1i64 << r.below(64)),
            8 => v.rotate_left(32),
            _ => ((v as f64) as i64),
        }
    }
    let mut out: Vec<Ph> = Vec::new();
    match p {
        Ph::F64(b) => {
            out.push(Ph::F64(f64_op(r, b, 0)));
            out.push(Ph::F64(f64_op(r, b, 4)));
            for _ in 0..n_random {
                let op = r.below(8);
                out.push(Ph::F64(f64_op(r, b, op)));
            }
        }
        Ph::I64(v) => {
            out.extend(i64_fixed(v).into_iter().map(Ph::I64));
            for _ in 0..n_random {
                out.push(Ph::I64(i64_op(r, v)));
            }
        }
        Ph::Cx(a, b) => {
            let s = 1u64 << 63;
            out.extend([Ph::Cx(a, b ^ s), Ph::Cx(a ^ s, b), Ph::Cx(a ^ s, b ^ s), Ph::Cx(b, a)]);
            if n_random >= 8 {
                // multiplicative word-at-a-time hashes (h = (rotl(h, k) ^ word) * ODD) carry a difference upwards only:
                // a difference in the top bit of one word stays one bit, and bit k-1 of the next word cancels it
                for k in 0..8 {
                    out.push(Ph::Cx(a ^ s, b ^ (1u64 << k)));
                }
                out.push(Ph::Cx(a ^ s, b ^ (1u64 << (8 + r.below(56)))));
            }
            for _ in 0..n_random {
                match r.below(6) {
                    0 => {
                        // the same bit flipped in both components (an xor-fold of the two cannot tell)
                        let m = 1u64 << r.below(64);
                        out.push(Ph::Cx(a ^ m, b ^ m));
                    }
                    1 => {
                        // +d / -d (an add-fold cannot tell)
                        let d = 1u64 << r.below(52);
                        out.push(Ph::Cx(a.wrapping_add(d), b.wrapping_sub(d)));
                    }
                    2 => {
                        let op = r.below(8);
                        out.push(Ph::Cx(f64_op(r, a, op), b));
                    }
                    3 => {
                        let op = r.below(8);
                        out.push(Ph::Cx(a, f64_op(r, b, op)));
                    }
                    _ => {
                        // one transformation per component
                        let (oa, ob) = (r.below(8), r.below(8));
                        let (na, nb) = (f64_op(r, a, oa), f64_op(r, b, ob));
                        out.push(Ph::Cx(na, nb));
                    }
                }
            }
        }
        Ph::Dec(bytes) => {
            let d = Decimal::deserialize(bytes);
            let (neg, scale) = (d.is_sign_negative(), d.scale());
            let m = d.mantissa().unsigned_abs();
            let (lo, mid, hi) = (m as u32, (m >> 32) as u32, (m >> 64) as u32);
            let mk = |lo: u32, mid: u32, hi: u32, neg: bool, scale: u32| Ph::Dec(Decimal::from_parts(lo, mid, hi, neg, scale.min(28)).serialize());
            out.push(mk(lo, mid, hi, !neg, scale));
            // equal as numbers, different as bits
            let mut t = d;
            t.rescale(scale + 1);
            out.push(Ph::Dec(t.serialize()));
            out.push(Ph::Dec(d.normalize().serialize()));
            // same digits, the point elsewhere
            out.push(mk(lo, mid, hi, neg, scale + 1));
            out.push(mk(lo, mid.wrapping_add(1), hi, neg, scale));
            for _ in 0..n_random {
                out.push(match r.below(7) {
                    0 => mk(lo, mid, hi.wrapping_add(1), neg, scale),
                    1 => mk(lo ^ (1 << r.below(32)), mid, hi, neg, scale),
                    2 => mk(mid, lo, hi, neg, scale),
                    3 => mk(lo.wrapping_add(1), mid, hi, neg, scale),
                    4 => mk(lo, mid, hi, neg, scale.saturating_sub(1)),
                    5 => mk(lo, mid ^ (1 << r.below(32)), hi, neg, scale),
                    _ => mk(lo & 0xffff, 0, 0, neg, scale),
                });
            }
        }
        Ph::NumI(v) => {
            out.push(Ph::NumF((v as f64).to_bits()));
            out.extend(i64_fixed(v).into_iter().map(Ph::NumI));
            for _ in 0..n_random {
                out.push(Ph::NumI(i64_op(r, v)));
            }
        }
        Ph::NumF(b) => {
            let x = f64::from_bits(b);
            if x.is_finite() && x.abs() < 9.2e18 {
                out.push(Ph::NumI(x as i64));
            }
            out.push(Ph::NumF(f64_op(r, b, 0)));
            out.push(Ph::NumF(f64_op(r, b, 4)));
            for _ in 0..n_random {
                let op = r.below(8);
                out.push(Ph::NumF(f64_op(r, b, op)));
            }
        }
    }
    let mut uniq: Vec<Ph> = Vec::new();
    for q in out {
        if q != p && !uniq.contains(&q) {
            uniq.push(q);
        }
    }
    uniq
}


/// String literals handed to `Parser::new(` / `Tokenizer::new(` / `eval_x(` in the repository's own tests,
/// and back-quoted snippets of the README. Returns (evaluator if derivable from the path, text).
pub fn repo_corpus(repo: &str) -> Vec<(Option<Ev>, String)> {
    let mut out: BTreeSet<(Option<Ev>, String)> = BTreeSet::new();
    let dirs = [
        ("eval_f64", Ev::F64),
        ("eval_i64", Ev::I64),
        ("eval_decimal", Ev::Dec),
        ("eval_complex", Ev::Cx),
        ("eval_number", Ev::Num),
    ];
    for (d, ev) in dirs {
        for f in ["tokenizer.rs", "parser.rs", "ast.rs", "mod.rs"] {
            let p = format!("{}/src/{}/{}", repo, d, f);
            if let Ok(s) = std::fs::read_to_string(&p) {
                for pat in ["Parser::new(\"", "Tokenizer::new(\""] {
                    let mut rest = s.as_str();
                    while let Some(i) = rest.find(pat) {
                        rest = &rest[i + pat.len()..];
                        if let Some(j) = rest.find('"') {
                            let lit = &rest[..j];
                            if !lit.contains('\\') && !lit.is_empty() && lit.chars().count() <= 80 {
                                out.insert((Some(ev), lit.to_string()));
                            }
                            rest = &rest[j..];
                        }
                    }
                }
            }
        }
    }
    if let Ok(s) = std::fs::read_to_string(format!("{}/README.md", repo)) {
        let parts: Vec<&str> = s.split('`').collect();
        let mut i = 1;
        while i < parts.len() {
            let t = parts[i].trim();
            if !t.is_empty() && !t.contains('\n') && t.chars().count() <= 40 && !t.starts_with('=') && !t.contains("eval_") {
                out.insert((None, t.to_string()));
            }
            i += 2;
        }
    }
    out.into_iter().collect()
}

#[derive(Clone, Debug)]
pub struct Entry {
    pub call: Call,
    pub expr_id: u32,
    pub origin: &'static str,
    // filled by the oracle pass
    pub oracle: Outcome,
    pub ticks: u32,
    pub trace: u64,
    /// the expression's isolated outcome varies with the placeholder (set by index_pool)
    pub sensitive: bool,
    /// dense id of the expression text (shared by all evaluators that were given the same text)
    pub text_id: u32,
}

impl Pool {
    /// assign dense text ids (call after the entry list is final)
    pub fn assign_text_ids(&mut self) {
        let mut ids: BTreeMap<String, u32> = BTreeMap::new();
        for e in self.entries.iter_mut() {
            let n = ids.len() as u32;
            e.text_id = *ids.entry(e.call.expr.clone()).or_insert(n);
        }
        self.n_texts = ids.len();
    }
}

#[derive(Clone, Debug, Default)]
pub struct Pool {
    pub n_texts: usize,
    /// groups of expression ids that are near-duplicates of each other
    pub sib_groups: Vec<Vec<u32>>,
    pub entries: Vec<Entry>,
    /// expr_id -> entry indices (same evaluator, same text, different placeholders)
    pub by_expr: Vec<Vec<u32>>,
    /// text -> expr_ids (same text, different evaluators)
    pub by_text: BTreeMap<String, Vec<u32>>,
}

pub struct PoolSizes {
    pub gen_per_ev: usize,
    pub cross_texts: usize,
    pub malformed_per_ev: usize,
    pub extreme_per_ev: usize,
    pub sibling_families_per_ev: usize,
    pub pair_samples_per_ev: usize,
    pub all_pairs: bool,
    pub max_corpus: usize,
    /// value-relative families per evaluator (all single-function shapes for evaluators the change touches)
    pub rel_families_per_ev: usize,
}

/// Build the candidate pool (oracle fields empty).
/// Small compositions of two function names: f(g(..)), f(g(..),..), f(..)+g(..), f(g(f(..))), with arities 1-3.
/// Used (a) for every pair of the functions a change touches, (b) for a sample (quick) or all (thorough) pairs
/// of an evaluator's vocabulary. Wrong arities simply give parse errors, which are fine as pool entries.
fn pair_shapes(f: &str, g: &str, r: &mut Rng, all: bool) -> Vec<String> {
    let f = f.trim_end_matches('(');
    let g = g.trim_end_matches('(');
    let leaf = |r: &mut Rng| ["@", "@", "@", "1", "2", "@+1", "3", "@-1", "9007199254740993", "9223372036854775807", "0.5"][r.below(11)].to_string();
    let mut out = Vec::new();
    let shapes: Vec<usize> = if all { (0..if f == g { 23 } else { 9 }).collect() } else { vec![r.below(9), r.below(9)] };
    for s in shapes {
        let (a, b, c) = (leaf(r), leaf(r), leaf(r));
        out.push(match s {
            0 => format!("{}({}({}))", f, g, a),
            1 => format!("{}({}({}),{})", f, g, a, b),
            2 => format!("{}({}({},{}))", f, g, a, b),
            3 => format!("{}({}({},{}),{})", f, g, a, b, c),
            4 => format!("{}({})+{}({})", f, a, g, b),
            5 => format!("{}({},{})+{}({},{})", f, a, b, g, b, c),
            6 => format!("{}({}({}({})))", f, g, f, a),
            7 => format!("{}(1+{}({}))", f, g, a),
            12 | 13 | 14 | 15 | 16 => {
                // wide argument lists (aggregates; a parse error for fixed-arity functions)
                let n = [8usize, 16, 40, 64, 100][s - 12];
                let args: Vec<String> = (0..n).map(|i| match i % 3 { 0 => "@".to_string(), 1 => format!(".{}", 1 + i % 9), _ => format!("{}", i % 7) }).collect();
                format!("{}({})", f, args.join(","))
            }
            // near-equal arguments: where comparisons, sums and roundings are decided by the last bit
            17 => format!("{}(@,@+1)", f),
            18 => format!("{}(@+1,@)", f),
            19 => format!("{}(@,@,@)", f),
            20 => format!("{}(@-1,@,@+1)", f),
            21 => format!("{}(9223372036854775807,@)", f),
            22 => format!("{}(@,9007199254740993)", f),
            9 => format!("{}({})", f, a),
            10 => format!("{}({},{})", f, a, b),
            11 => format!("{}({},{},{})", f, a, b, c),
            _ => format!("{}({},{}({}),{})", f, a, g, b, c),
        });
    }
    out
}

pub struct PoolFocus {
    pub evs: Vec<Ev>,
    pub tokens: Vec<String>,
    pub new_words: Vec<String>,
    pub new_examples: Vec<String>,
}

pub fn build_pool(seed: u64, repo: &str, sz: &PoolSizes, focus: Option<&PoolFocus>) -> Pool {
    let mut r = Rng::new(mix(seed, 0x706f6f6c));
    let mut pool = Pool::default();
    let mut seen: BTreeSet<(Ev, String)> = BTreeSet::new();
    let phs: Vec<Vec<Ph>> = ALL_EV.iter().map(|e| placeholders(&mut r, *e)).collect();

    let mut add_expr = |pool: &mut Pool, r: &mut Rng, ev: Ev, text: String, origin: &'static str, nph: usize| {
        if !seen.insert((ev, text.clone())) {
            return;
        }
        let expr_id = pool.by_expr.len() as u32;
        let list = &phs[ev as usize];
        let mut chosen: Vec<Ph> = Vec::new();
        // default value over-weighted: always present when more than one placeholder is used
        if nph > 1 || r.chance(0.5) {
            chosen.push(list[0]);
        }
        let mut guard = 0;
        while chosen.len() < nph && guard < 100 {
            guard += 1;
            let p = *r.pick(list);
            if !chosen.contains(&p) {
                chosen.push(p);
            }
        }
        let mut idxs = Vec::new();
        for ph in chosen {
            idxs.push(pool.entries.len() as u32);
            pool.entries.push(Entry {
                call: Call { ev, expr: text.clone(), ph },
                expr_id,
                origin,
                oracle: Outcome::Panic(String::new()),
                ticks: 0,
                trace: 0,
                sensitive: false,
                text_id: 0,
            });
        }
        pool.by_expr.push(idxs);
        pool.by_text.entry(text).or_default().push(expr_id);
    };

    // (a) repository corpus
    let mut corpus = repo_corpus(repo);
    r.shuffle(&mut corpus);
    corpus.truncate(sz.max_corpus);
    for (ev, text) in corpus {
        match ev {
            Some(e) => {
                add_expr(&mut pool, &mut r, e, text.clone(), "repo_tests", 1);
                if r.chance(0.4) {
                    let o = *r.pick(&ALL_EV);
                    add_expr(&mut pool, &mut r, o, text, "repo_tests_other_evaluator", 1);
                }
            }
            None => {
                for e in ALL_EV {
                    if r.chance(0.6) {
                        add_expr(&mut pool, &mut r, e, text.clone(), "readme", 1);
                    }
                }
            }
        }
    }
    // fixed seeds of the vocabulary: the smallest @-expressions, for every evaluator
    for e in ALL_EV {
        for t in ["@", "1+@", "@*2", "@+@", "-@", "@²", "abs(@)", "sqrt(@)", "2(@)", "pow(@,2)", "@^@", "1", "2+3", "3,14", "1,5+@", "@,5", "2,5*2", "1 000", "1_000", "1e3", "0x10", "١٢٣", "½"] {
            add_expr(&mut pool, &mut r, e, t.to_string(), "seed_vocabulary", 4);
        }
    }
    // (b) grammar-directed, per evaluator
    for e in ALL_EV {
        let v = vocab(Some(e));
        let mut made = 0;
        let mut guard = 0;
        while made < sz.gen_per_ev && guard < sz.gen_per_ev * 20 {
            guard += 1;
            let depth = [1usize, 2, 2, 3, 3, 4][r.below(6)];
            let mut t = gen_expr(&mut r, &v, depth, 0.35);
            let n = t.chars().count();
            if n > 256 || (n > 64 && r.chance(0.8)) {
                continue;
            }
            let has_ans = t.contains('@');
            if !has_ans && r.chance(0.6) {
                continue;
            }
            if r.chance(0.15) {
                t = sprinkle_ws(&mut r, &t);
            }
            let nph = if has_ans { r.range(2, 5) } else { r.range(1, 2) };
            add_expr(&mut pool, &mut r, e, t, "grammar", nph);
            made += 1;
        }
    }
    // (d) same text to several evaluators
    {
        let v = vocab(None);
        for _ in 0..sz.cross_texts {
            let depth = [1usize, 2, 2, 3][r.below(4)];
            let t = gen_expr(&mut r, &v, depth, 0.45);
            if t.chars().count() > 64 || !t.contains('@') {
                continue;
            }
            for e in ALL_EV {
                if r.chance(0.8) {
                    let nph = r.range(2, 3);
                    add_expr(&mut pool, &mut r, e, t.clone(), "cross_evaluator", nph);
                }
            }
        }
    }
    // (e) extreme shapes
    for e in ALL_EV {
        let v = vocab(Some(e));
        for _ in 0..sz.extreme_per_ev {
            let mut t = gen_extreme(&mut r, &v);
            if t.chars().count() > 256 {
                t = t.chars().take(256).collect();
            }
            let nph = if t.contains('@') { r.range(2, 4) } else { 1 };
            add_expr(&mut pool, &mut r, e, t, "extreme_shape", nph);
        }
    }
    // (f) families of near-duplicate expressions ("siblings"): equal length, equal prefix or suffix, one small
    //     difference - what a cache or interner with too weak a key would confuse
    for e in ALL_EV {
        let v = vocab(Some(e));
        for _ in 0..sz.sibling_families_per_ev {
            let mut fam: Vec<String> = Vec::new();
            match r.below(5) {
                4 => {
                    // the same formula spelled with different whitespace (the library strips whitespace: the raw texts
                    // differ, the formula does not)
                    let depth = [1usize, 2, 2][r.below(3)];
                    let base = gen_expr(&mut r, &v, depth, 0.6);
                    if base.chars().count() <= 60 {
                        fam.push(base.clone());
                        let spaced: String = base.chars().map(|c| if "+-*/^,()".contains(c) { format!(" {} ", c) } else { c.to_string() }).collect();
                        fam.push(spaced.trim().to_string());
                        fam.push(format!(" {}", base));
                        fam.push(format!("{}\t", base));
                        fam.push(sprinkle_ws(&mut r, &base));
                    }
                }
                0 | 1 => {
                    // long literals with a common tail and different heads (and the other way round)
                    let tail_len = [8usize, 8, 9, 10, 12][r.below(5)];
                    let tail: String = (0..tail_len).map(|_| char::from(b'0' + r.below(10) as u8)).collect();
                    let n = r.range(2, 4);
                    let shape = r.below(4);
                    for _ in 0..n {
                        let hl = [1usize, 2, 2, 3][r.below(4)];
                        let head: String = (0..hl).map(|i| char::from(b'0' + if i == 0 { 1 + r.below(9) } else { r.below(10) } as u8)).collect();
                        let lit = match (shape, v.floats) {
                            (0, _) | (_, false) => format!("{}{}", head, tail),
                            (1, true) => format!("{}.{}", head, tail),
                            (2, true) => format!("0.{}{}", head, tail),
                            _ => format!("{}{}", tail, head),
                        };
                        // i64 literals must fit: keep them under 19 digits
                        let lit = if !v.floats && lit.len() > 18 { lit[lit.len() - 18..].trim_start_matches('0').to_string() } else { lit };
                        fam.push(match shape % 2 {
                            0 => format!("{}+@", lit),
                            _ => format!("@*{}", lit),
                        });
                    }
                }
                2 => {
                    // same shape, one function swapped for another of the same length
                    let groups: [&[&str]; 4] = [&["sin", "cos", "tan"], &["min", "max", "avg", "med"], &["abs", "exp"], &["ln", "lb"]];
                    let g: Vec<&str> = groups[r.below(4)].iter().copied().filter(|f| v.unary.contains(f) || v.aggr.contains(f)).collect();
                    if g.len() >= 2 {
                        let inner = gen_expr(&mut r, &v, 1, 0.6);
                        for f in g {
                            fam.push(format!("{}({})+1", f, inner));
                        }
                    }
                }
                _ => {
                    // same text except one digit
                    let base = gen_expr(&mut r, &v, 2, 0.4);
                    if let Some(pos) = base.char_indices().filter(|(_, c)| c.is_ascii_digit()).map(|(i, _)| i).last() {
                        for d in ["1", "2", "7"] {
                            let mut t = base.clone();
                            t.replace_range(pos..pos + 1, d);
                            fam.push(t);
                        }
                    }
                }
            }
            fam.retain(|t| t.chars().count() <= 256);
            fam.sort();
            fam.dedup();
            if fam.len() >= 2 {
                let first_id = pool.by_expr.len() as u32;
                for t in fam {
                    let nph = if t.contains('@') { 2 } else { 1 };
                    add_expr(&mut pool, &mut r, e, t, "sibling_family", nph);
                }
                let last_id = pool.by_expr.len() as u32;
                if last_id >= first_id + 2 {
                    pool.sib_groups.push((first_id..last_id).collect());
                }
            }
        }
    }
    // (g) compositions of pairs of functions: a sample (or all) of each evaluator's vocabulary, and every pair of
    //     the functions the change under test touches
    for e in ALL_EV {
        let v = vocab(Some(e));
        let names: Vec<&str> = v.unary.iter().chain(v.binary.iter()).chain(v.aggr.iter()).copied().collect();
        if sz.all_pairs {
            for f in &names {
                for g in &names {
                    for t in pair_shapes(f, g, &mut r, false) {
                        add_expr(&mut pool, &mut r, e, t, "function_pairs", 2);
                    }
                }
            }
        } else {
            for _ in 0..sz.pair_samples_per_ev {
                let f = names[r.below(names.len())];
                let g = names[r.below(names.len())];
                for t in pair_shapes(f, g, &mut r, false) {
                    add_expr(&mut pool, &mut r, e, t, "function_pairs", 2);
                }
            }
        }
    }
    if let Some(fc) = focus {
        if fc.tokens.iter().filter(|t| t.ends_with('(')).count() == 0 && !fc.evs.is_empty() && fc.evs.len() <= 2 {
            // the change names evaluators but no particular function: all single-function shapes of those evaluators
            for e in fc.evs.clone() {
                let v = vocab(Some(e));
                let names: Vec<&str> = v.unary.iter().chain(v.binary.iter()).chain(v.aggr.iter()).copied().collect();
                for f in names {
                    for t in pair_shapes(f, f, &mut r, true) {
                        add_expr(&mut pool, &mut r, e, t, "change_focus", 5);
                    }
                }
            }
        }
        // operators the change names (postfix, infix): every small shape around them, over many placeholders - the
        // grammar-directed part of the pool has them only with a couple of placeholders each
        {
            let evs: Vec<Ev> = if fc.evs.is_empty() { ALL_EV.to_vec() } else { fc.evs.clone() };
            for t in fc.tokens.iter().filter(|t| !t.ends_with('(')) {
                let op: &str = match t.as_str() {
                    "SUPERSCRIPT" => "³",
                    "LITERAL." | "@" | "π" | "pi" | "⌊" | "⌈" => continue,
                    x => x,
                };
                let postfix = ["!", "%", "°", "rad", "³"].contains(&op);
                let shapes: Vec<String> = if postfix {
                    vec![
                        format!("(@){}", op), format!("(@+1){}", op), format!("(@-1){}", op), format!("@{}+@{}", op, op), format!("@{}/(@-3){}", op, op),
                        format!("2*@{}", op), format!("(@{}){}", op, op), format!("3{}+@{}", op, op), format!("@{}-1", op),
                    ]
                } else {
                    vec![
                        format!("(@){}@", op), format!("@{}2", op), format!("2{}@", op), format!("(@+1){}(@-1)", op), format!("@{}@{}@", op, op),
                        format!("3{}@{}2", op, op), format!("@{}(0-@)", op), format!("(@{}3)+1", op),
                    ]
                };
                for e in evs.iter() {
                    for sh in shapes.iter() {
                        add_expr(&mut pool, &mut r, *e, sh.clone(), "change_focus", 10);
                    }
                }
            }
        }
        let fnames: Vec<&str> = fc.tokens.iter().filter(|t| t.ends_with('(')).map(|t| t.as_str()).collect();
        if !fnames.is_empty() && fnames.len() <= 8 {
            let evs: Vec<Ev> = if fc.evs.is_empty() { ALL_EV.to_vec() } else { fc.evs.clone() };
            for e in evs {
                for f in &fnames {
                    for g in &fnames {
                        for t in pair_shapes(f, g, &mut r, true) {
                            add_expr(&mut pool, &mut r, e, t, "change_focus", 6);
                        }
                    }
                }
            }
        } else if fnames.len() > 8 {
            // many functions named (a change that routes a whole family of functions through something new):
            // every single-function shape of each
            let evs: Vec<Ev> = if fc.evs.is_empty() { ALL_EV.to_vec() } else { fc.evs.clone() };
            for e in evs {
                for f in &fnames {
                    for t in pair_shapes(f, f, &mut r, true) {
                        add_expr(&mut pool, &mut r, e, t, "change_focus", 4);
                    }
                }
            }
        }
    }
    // words that only the added lines of the change quote: candidates for syntax the change introduces. The role of a
    // word is not known, so each is tried in every role (function, prefix, postfix, infix, constant), around and
    // inside every unary function of the evaluator (an inner call that fails leaves the new construct by its error
    // path). What the library rejects stays in the pool as one more error-producing input.
    if let Some(fc) = focus {
        let evs: Vec<Ev> = if fc.evs.is_empty() { ALL_EV.to_vec() } else { fc.evs.clone() };
        for e in evs.iter().copied() {
            let v = vocab(Some(e));
            let unary: Vec<&str> = v.unary.iter().copied().collect();
            // what can go wrong next to the new construct: sub-expressions that fail or panic in some evaluator
            let bad = ["w(0-5)", "0/0", "ln(0-1)", "(0-1)!", "1/0", "sqrt(0-1)", "9223372036854775807+1"];
            for ex in fc.new_examples.iter() {
                add_expr(&mut pool, &mut r, e, ex.clone(), "new_words", 4);
                if ex.chars().count() > 60 {
                    continue;
                }
                add_expr(&mut pool, &mut r, e, format!("({})+({})", ex, ex), "new_words", 2);
                for f in unary.iter().take(6) {
                    add_expr(&mut pool, &mut r, e, format!("{}({})", f, ex), "new_words", 2);
                }
                for p in bad.iter() {
                    for agg in v.aggr.iter().take(4) {
                        add_expr(&mut pool, &mut r, e, format!("{}({},{})", agg, ex, p), "new_words", 2);
                    }
                    add_expr(&mut pool, &mut r, e, format!("({})+{}", ex, p), "new_words", 2);
                }
            }
            // atoms (a new symbol with a name: `$a`): bound or used next to something that fails
            for w in fc.new_words.iter().filter(|w| w.chars().count() >= 2 && !w.chars().next().map_or(true, |c| c.is_alphanumeric()) && w.chars().skip(1).all(|c| c.is_alphanumeric())) {
                for p in bad.iter() {
                    for agg in v.aggr.iter().take(4) {
                        add_expr(&mut pool, &mut r, e, format!("{}({}=@,{})", agg, w, p), "new_words", 3);
                        add_expr(&mut pool, &mut r, e, format!("{}({},{})", agg, w, p), "new_words", 2);
                    }
                }
                for t in [format!("{}=@", w), format!("{}=@+1", w), format!("{}=@;{}", w, w), format!("{}+1", w), format!("2*{}", w), format!("2{}+@", w), format!("{}=@;{}*2", w, w)] {
                    add_expr(&mut pool, &mut r, e, t, "new_words", 3);
                }
            }
            for w in fc.new_words.iter() {
                let mut shapes: Vec<String> = Vec::new();
                let plain = w.chars().all(|c| c.is_alphanumeric() || c == '_');
                if let Some(name) = w.strip_suffix('(') {
                    for a in ["@", "@+1", "1", "0-@", "@,2", "@,@,3"] {
                        shapes.push(format!("{}({})", name, a));
                    }
                    shapes.push(format!("{}({}(@))", name, name));
                    shapes.push(format!("{}(@)+{}(@)", name, name));
                    shapes.push(format!("{}(", name));
                    for f in unary.iter() {
                        shapes.push(format!("{}({}(@))", name, f));
                        shapes.push(format!("{}(1+{}(@))", name, f));
                        shapes.push(format!("{}({}(@))", f, w.trim_end_matches('(')));
                    }
                } else {
                    // prefix
                    for a in ["@", " @", "(@)", "@+1", "1", "(@+1)*2"] {
                        shapes.push(format!("{}{}", w, a));
                    }
                    shapes.push(format!("1+{}@", w));
                    shapes.push(format!("({}@)", w));
                    shapes.push(format!("{}{}@", w, w));
                    for f in unary.iter() {
                        shapes.push(format!("{}{}(@)", w, f));
                        shapes.push(format!("{} {}(@)", w, f));
                        shapes.push(format!("{}(1+{}(@))", w, f));
                    }
                    // postfix, infix, constant
                    for a in ["@", "(@)", "2", "(@+1)"] {
                        shapes.push(format!("{}{}", a, w));
                        shapes.push(format!("{} {}", a, w));
                    }
                    for f in unary.iter().take(12) {
                        shapes.push(format!("{}(@){}", f, w));
                    }
                    for (a, b) in [("@", "2"), ("2", "@"), ("(@)", "(@)"), ("@", "@")] {
                        shapes.push(format!("{}{}{}", a, w, b));
                        shapes.push(format!("{} {} {}", a, w, b));
                    }
                    shapes.push(w.clone());
                    shapes.push(format!("{}+@", w));
                    shapes.push(format!("@*{}", w));
                    if plain {
                        // a plain word may just as well be a function name
                        for a in ["@", "@+1", "1", "@,2"] {
                            shapes.push(format!("{}({})", w, a));
                        }
                        for f in unary.iter() {
                            shapes.push(format!("{}({}(@))", w, f));
                        }
                    }
                }
                for sh in shapes {
                    if sh.chars().count() <= 200 {
                        add_expr(&mut pool, &mut r, e, sh, "new_words", 4);
                    }
                }
            }
        }
    }
    // (i) boundary ladders: structural sizes at 2^k-1, 2^k, 2^k+1 (k = 3..8, as far as 256 characters allow) and a dense
    //     run just below the longest possible: nesting depth by parentheses and by sign chains, number of terms of a
    //     flat chain, number of aggregate arguments, text length. Limits in code sit at such values.
    {
        let mut sizes: Vec<usize> = Vec::new();
        for k in 3..=8u32 {
            let p = 1usize << k;
            sizes.extend([p - 1, p, p + 1]);
        }
        for e in ALL_EV {
            let v = vocab(Some(e));
            let aggr: Vec<&str> = v.aggr.iter().copied().take(4).collect();
            for &n in &sizes {
                // parentheses: depth n (2n+1 characters)
                if 2 * n + 1 <= 256 {
                    add_expr(&mut pool, &mut r, e, format!("{}@{}", "(".repeat(n), ")".repeat(n)), "boundary_ladder", 2);
                    add_expr(&mut pool, &mut r, e, format!("{}@+1{}", "(".repeat(n.saturating_sub(1)), ")".repeat(n.saturating_sub(1))), "boundary_ladder", 2);
                }
                // sign chain: depth n
                if n + 1 <= 256 {
                    add_expr(&mut pool, &mut r, e, format!("{}1", "-".repeat(n)), "boundary_ladder", 1);
                    add_expr(&mut pool, &mut r, e, format!("{}@", "-".repeat(n)), "boundary_ladder", 2);
                }
                // flat chain with n terms
                if 2 * n <= 256 {
                    let t: Vec<&str> = (0..n).map(|i| if i % 5 == 0 { "@" } else { "1" }).collect();
                    add_expr(&mut pool, &mut r, e, t.join("+"), "boundary_ladder", 2);
                }
                // aggregate with n arguments
                for f in &aggr {
                    if f.len() + 2 + 2 * n + (n / 3) <= 256 {
                        let args: Vec<String> = (0..n).map(|i| match i % 3 { 0 => "@".to_string(), 1 => if v.floats { format!(".{}", 1 + i % 9) } else { format!("{}", i % 10) }, _ => format!("{}", i % 7) }).collect();
                        add_expr(&mut pool, &mut r, e, format!("{}({})", f, args.join(",")), "boundary_ladder", 2);
                    }
                }
                // text of exactly n characters
                if n >= 3 && n <= 256 {
                    let mut t = String::from("@");
                    while t.chars().count() + 2 <= n {
                        t.push_str("+1");
                    }
                    if t.chars().count() < n {
                        t.insert(0, ' ');
                    }
                    add_expr(&mut pool, &mut r, e, t, "boundary_ladder", 1);
                }
            }
            // superscript exponents and digit literals of growing length (the places where the tokenizers `.unwrap()`
            // a conversion that overflows for long runs: i64 at 19 digits, Decimal at 29-30, f64 never)
            for n in [1usize, 2, 9, 10, 15, 16, 17, 18, 19, 20, 21, 28, 29, 30, 31, 32, 40, 64] {
                let sup: String = (0..n).map(|i| ['⁹', '¹', '²', '³', '⁴', '⁵', '⁶', '⁷', '⁸', '⁰'][i % 10]).collect();
                add_expr(&mut pool, &mut r, e, format!("2{}", sup), "boundary_ladder", 1);
                add_expr(&mut pool, &mut r, e, format!("@{}+1", sup), "boundary_ladder", 2);
                let lit: String = (0..n).map(|i| char::from(b'1' + ((i * 7 + 2) % 9) as u8)).collect();
                add_expr(&mut pool, &mut r, e, format!("{}+@", lit), "boundary_ladder", 1);
                if v.floats {
                    add_expr(&mut pool, &mut r, e, format!("0.{}*@", lit), "boundary_ladder", 1);
                }
            }
            // beyond 256 characters: the three recursion-depth shapes at 2^8+1 .. 2^10+1 (limits such as "256 levels"
            // sit just past what a 256-character input can reach); callers' threads have 64 MB stacks
            for n in [257usize, 258, 300, 511, 512, 513, 1023, 1025] {
                add_expr(&mut pool, &mut r, e, format!("{}@{}", "(".repeat(n), ")".repeat(n)), "boundary_ladder", 1);
                add_expr(&mut pool, &mut r, e, format!("{}@", "-".repeat(n)), "boundary_ladder", 1);
                let t: Vec<&str> = (0..n).map(|i| if i % 5 == 0 { "@" } else { "1" }).collect();
                add_expr(&mut pool, &mut r, e, t.join("+"), "boundary_ladder", 2);
            }
            // dense runs near the top
            for n in 118..=127usize {
                add_expr(&mut pool, &mut r, e, format!("{}@+1{}", "(".repeat(n), ")".repeat(n)), "boundary_ladder", 1);
            }
            for n in [120usize, 124, 126, 127, 128, 129, 130, 132, 160, 200, 254] {
                add_expr(&mut pool, &mut r, e, format!("{}@", "-".repeat(n)), "boundary_ladder", 1);
            }
        }
    }
    // (h) edge tokens: every character the tokenizers know (and a few they do not), and truncated function names,
    //     at the start / at the end / doubled, around a handful of tiny bases - the systematic part of the
    //     malformed class, so that every early-exit path of the lexers and parsers has some input that takes it
    {
        let alphabet: Vec<&str> = vec![
            ".", ",", "(", ")", "!", "%", "^", "°", "⌊", "⌋", "⌈", "⌉", "π", "@", "e", "i", "p", "r", "w", "+", "-", "*", "/", "&", "|", "<", ">", "<<", ">>",
            "²", "⁰", "#", "$", "?", "x", "_", "=", "~", "'", "\"", "rad", "pi", "si", "sq", "lo", "mi", "lambert_", "sin", "abs", "0x", "1e", "..", "0.", ".0",
        ];
        let bases = ["", "1", "@", "1+", "(@+2)*", "2*(", "abs(", "min(1,", "@^"];
        for e in ALL_EV {
            for (bi, b) in bases.iter().enumerate() {
                for (ai, a) in alphabet.iter().enumerate() {
                    // a deterministic thinning for the larger bases keeps the class around 250 entries per evaluator
                    if bi >= 3 && (ai + bi) % 3 != 0 {
                        continue;
                    }
                    let variants = [format!("{}{}", b, a), format!("{}{}", a, b), format!("{}{}{}", b, a, a)];
                    let t = variants[(ai + bi) % 3].clone();
                    if !t.is_empty() {
                        add_expr(&mut pool, &mut r, e, t, "edge_tokens", 1);
                    }
                }
            }
        }
    }
    // (c) near-miss malformed strings
    for e in ALL_EV {
        let v = vocab(Some(e));
        for _ in 0..sz.malformed_per_ev {
            let depth = [1usize, 2, 3][r.below(3)];
            let t = gen_expr(&mut r, &v, depth, 0.3);
            if t.chars().count() > 64 {
                continue;
            }
            let m = malform(&mut r, &t);
            let nph = r.range(1, 2);
            add_expr(&mut pool, &mut r, e, m, "malformed", nph);
        }
    }
    // (j) value relatives: one formula, a base placeholder and its representation relatives (see `relatives`)
    {
        let mut push_family_as = |pool: &mut Pool, ev: Ev, text: String, chosen: Vec<Ph>, origin: &'static str| {
            if chosen.len() < 2 || text.chars().count() > 256 || !seen.insert((ev, text.clone())) {
                return;
            }
            let expr_id = pool.by_expr.len() as u32;
            let mut idxs = Vec::new();
            for ph in chosen {
                idxs.push(pool.entries.len() as u32);
                pool.entries.push(Entry { call: Call { ev, expr: text.clone(), ph }, expr_id, origin, oracle: Outcome::Panic(String::new()), ticks: 0, trace: 0, sensitive: false, text_id: 0 });
            }
            pool.by_expr.push(idxs);
            pool.by_text.entry(text).or_default().push(expr_id);
        };
        for e in ALL_EV {
            let v = vocab(Some(e));
            let focused = focus.map_or(false, |f| f.evs.contains(&e) && f.evs.len() <= 2);
            let named: Vec<&str> = focus.map_or(Vec::new(), |f| f.tokens.iter().filter(|t| t.ends_with('(')).map(|t| t.trim_end_matches('(')).collect());
            let names: Vec<&str> = v.unary.iter().chain(v.binary.iter()).chain(v.aggr.iter()).copied().collect();
            let mut shapes: Vec<String> = Vec::new();
            let consts: Vec<&str> = if v.floats { vec!["2", "3", "10", "0.5", "1.5", "7"] } else { vec!["2", "3", "10", "5", "16", "7"] };
            let mut shapes_of = |f: &str, r: &mut Rng, all: bool| -> Vec<String> {
                let c = consts[r.below(consts.len())];
                let mut s = vec![format!("{}(@)", f), format!("{}({},@)", f, c), format!("{}(@,{})", f, c), format!("{}(@)+{}", f, c), format!("{}*{}(@)", c, f), format!("{}(@,@)", f)];
                if !all {
                    let k = r.below(s.len());
                    s = vec![s.swap_remove(k)];
                }
                s
            };
            if focused {
                for f in &names {
                    if named.is_empty() || named.len() > 8 || named.contains(f) {
                        shapes.extend(shapes_of(f, &mut r, true));
                    }
                }
                for op in ["@^2", "2^@", "@*@", "@/3", "1/@", "@-1", "@%", "@!", "-@", "@°", "@rad", "@²", "3+@"] {
                    shapes.push(op.to_string());
                }
            }
            for _ in 0..sz.rel_families_per_ev {
                if r.chance(0.8) {
                    let f = names[r.below(names.len())];
                    shapes.extend(shapes_of(f, &mut r, false));
                } else {
                    let c = consts[r.below(consts.len())];
                    shapes.push(match r.below(6) { 0 => format!("@^{}", c), 1 => format!("{}^@", c), 2 => format!("{}/@", c), 3 => format!("@*{}", c), 4 => format!("{}-@", c), _ => format!("@+{}", c) });
                }
            }
            for text in shapes {
                // base: one of the evaluator's standard placeholders, or a small "nice" value
                let list = &phs[e as usize];
                let base = if r.chance(0.5) {
                    *r.pick(list)
                } else {
                    let k = r.below(41) as i64 - 20;
                    let x = k as f64 * [1.0, 0.5, 0.25, 4.0][r.below(4)];
                    let y = (r.below(17) as f64 - 8.0) * [1.0, 0.5, 2.0][r.below(3)];
                    match e {
                        Ev::F64 => Ph::F64(x.to_bits()),
                        Ev::I64 => Ph::I64(if r.chance(0.7) { k } else { k.wrapping_mul(65537) }),
                        Ev::Dec => Ph::Dec(dec_bits((k * 25) as i128, 2)),
                        Ev::Cx => Ph::Cx(x.to_bits(), y.to_bits()),
                        Ev::Num => if r.chance(0.5) { Ph::NumI(k) } else { Ph::NumF(x.to_bits()) },
                    }
                };
                let mut fam = vec![base];
                let deep = e == Ev::Cx && r.chance(0.5);
                fam.extend(relatives(&mut r, base, if deep { 8 } else { 4 }));
                fam.truncate(if deep { 24 } else { 10 });
                push_family_as(&mut pool, e, text, fam, "value_relatives");
            }
        }
        // (l) argument lattices for the functions a change names: one formula per function, 256 evenly spaced
        //     placeholders - hundreds of DISTINCT arguments of exactly the code that changed (tables that fill up,
        //     files that grow, capacities that overflow need many distinct keys, not many formulas)
        if let Some(fc) = focus {
            let mut fnames: Vec<&str> = fc.tokens.iter().filter(|t| t.ends_with('(')).map(|t| t.trim_end_matches('(')).collect();
            r.shuffle(&mut fnames);
            fnames.truncate(8);
            let evs: Vec<Ev> = if fc.evs.is_empty() { ALL_EV.to_vec() } else { fc.evs.clone() };
            for e in evs.into_iter().take(2) {
                for f in fnames.iter() {
                    let (base, step) = [(1.0f64, 0.001f64), (0.5, 0.01), (-2.0, 0.03), (10.0, 1.0)][r.below(4)];
                    let fam: Vec<Ph> = (0..256)
                        .map(|k| {
                            let x = base + step * k as f64;
                            match e {
                                Ev::F64 => Ph::F64(x.to_bits()),
                                Ev::I64 => Ph::I64(base as i64 + k as i64),
                                Ev::Dec => Ph::Dec(dec_bits((x * 1000.0).round() as i128, 3)),
                                Ev::Cx => Ph::Cx(x.to_bits(), ((k % 7) as f64 * 0.25).to_bits()),
                                Ev::Num => if k % 2 == 0 { Ph::NumF(x.to_bits()) } else { Ph::NumI(base as i64 + k as i64) },
                            }
                        })
                        .collect();
                    push_family_as(&mut pool, e, format!("{}((@))", f), fam, "arg_lattice");
                }
            }
        }
        // (k) exact inverse cases: arguments at which the true result of an inverse function is a whole number
        //     (perfect powers under root / sqrt, powers of the base under log / lb): a floating-point estimate lands a
        //     hair below or above, and code that corrects (or forgets to correct) it is decided by the last bit.
        //     The value and its two neighbours, as placeholder and as literal.
        for e in ALL_EV {
            let v = vocab(Some(e));
            let has = |f: &str| v.unary.contains(&f) || v.binary.contains(&f);
            let mk = |x: i64| -> Ph {
                match e {
                    Ev::F64 => Ph::F64((x as f64).to_bits()),
                    Ev::I64 => Ph::I64(x),
                    Ev::Dec => Ph::Dec(dec_bits(x as i128, 0)),
                    Ev::Cx => Ph::Cx((x as f64).to_bits(), 0),
                    Ev::Num => Ph::NumI(x),
                }
            };
            let mut cases: Vec<(String, Vec<i64>)> = Vec::new();
            for n in [2u32, 3, 4, 5, 7] {
                let mut vals: Vec<i64> = Vec::new();
                for m in [2i64, 3, 4, 5, 6, 7, 9, 10, 11, 12, 100, 1000, 46341, 2097152] {
                    if let Some(p) = m.checked_pow(n) {
                        if p < (1i64 << 62) {
                            vals.extend([p, p - 1, p + 1]);
                        }
                    }
                }
                if has("root") {
                    cases.push((format!("root({},@)", n), vals.clone()));
                    cases.push((format!("root({},@)+1", n), vals.clone()));
                    for p in vals.iter().step_by(3).take(6) {
                        cases.push((format!("root({},{})", n, p), vec![0]));
                    }
                }
                if n == 2 && has("sqrt") {
                    vals.extend([(1i64 << 53) + 2, 9007199515875289, 4611686014132420609]);
                    cases.push(("sqrt(@)".to_string(), vals.clone()));
                    cases.push(("sqrt(@)*2".to_string(), vals.clone()));
                }
                cases.push((format!("@^(1/{})", n), vals.clone()));
            }
            for b in [2i64, 3, 10] {
                let mut vals: Vec<i64> = Vec::new();
                let mut p = 1i64;
                for _k in 0..40 {
                    p = match p.checked_mul(b) {
                        Some(x) => x,
                        None => break,
                    };
                    vals.extend([p, p - 1, p + 1]);
                }
                if has("log") {
                    cases.push((format!("log(@,{})", b), vals.clone()));
                }
                if b == 2 && has("lb") {
                    cases.push(("lb(@)".to_string(), vals.clone()));
                }
            }
            for (text, vals) in cases {
                let mut fam: Vec<Ph> = Vec::new();
                // a sample of the values: every family keeps a few exact cases and their neighbours
                let mut idx: Vec<usize> = (0..vals.len() / 3).collect();
                r.shuffle(&mut idx);
                for i in idx.into_iter().take(4) {
                    fam.extend([mk(vals[3 * i]), mk(vals[3 * i + 1]), mk(vals[3 * i + 2])]);
                }
                if fam.is_empty() {
                    fam.push(mk(vals.first().copied().unwrap_or(0)));
                    fam.push(mk(1));
                }
                fam.dedup();
                push_family_as(&mut pool, e, text, fam, "value_relatives");
            }
        }
    }
    pool
}
