//! Shrinking a violating run. Every candidate is executed in a fresh process; a candidate is kept
//! while the same violation class (evaluator of the diverging call, kind) persists.

use crate::case::*;
use crate::sim::Sw;
use crate::types::*;
use std::time::{Duration, Instant};

pub struct MinStats {
    pub candidates: usize,
    pub accepted: usize,
    pub wall_s: f64,
}

fn drop_thread(c: &Case, t: usize) -> Case {
    let mut n = c.clone();
    n.threads.remove(t);
    n.churn.remove(t);
    if t < n.jumps.len() {
        n.jumps.remove(t);
    }
    if t < n.depths.len() {
        n.depths.remove(t);
    }
    if t < n.cpus.len() {
        n.cpus.remove(t);
    }
    let map = |x: u32| if x < crate::sim::HELPER_BASE && (x as usize) > t { x - 1 } else { x };
    n.switches = c
        .switches
        .iter()
        .filter(|s| s.thread as usize != t && s.to as usize != t)
        .map(|s| Sw { thread: map(s.thread), call: s.call, tick: s.tick, to: map(s.to) })
        .collect();
    n.start = if c.start as usize == t { 0 } else { map(c.start) };
    n
}

fn drop_calls(c: &Case, t: usize, a: usize, b: usize) -> Case {
    let mut n = c.clone();
    n.threads[t].drain(a..b);
    let d = (b - a) as u32;
    for s in n.switches.iter_mut() {
        if s.thread as usize == t {
            if (s.call as usize) >= b {
                s.call -= d;
            } else if (s.call as usize) >= a {
                s.call = a as u32;
                s.tick = 0;
            }
        }
    }
    if t < n.jumps.len() {
        n.jumps[t] = c.jumps[t]
            .iter()
            .filter_map(|(k, dm, dr)| {
                let k = *k as usize;
                if k >= b {
                    Some(((k - (b - a)) as u32, *dm, *dr))
                } else if k >= a {
                    Some((a as u32, *dm, *dr))
                } else {
                    Some((k as u32, *dm, *dr))
                }
            })
            .collect();
    }
    if t < n.depths.len() {
        n.depths[t] = c.depths[t]
            .iter()
            .filter_map(|(k, kb)| {
                let k = *k as usize;
                if k >= b {
                    Some(((k - (b - a)) as u32, *kb))
                } else if k >= a {
                    None
                } else {
                    Some((k as u32, *kb))
                }
            })
            .collect();
    }
    n.churn[t] = c.churn[t]
        .iter()
        .filter_map(|k| {
            let k = *k as usize;
            if k >= b {
                Some((k - (b - a)) as u32)
            } else if k >= a {
                None
            } else {
                Some(k as u32)
            }
        })
        .collect();
    n
}

/// Append thread `b`'s calls to thread `a` (a < b or a > b), dropping every switch: a purely sequential history.
fn merge_all_threads(c: &Case, order: &[usize]) -> Case {
    let mut calls = Vec::new();
    for t in order {
        calls.extend(c.threads[*t].iter().cloned());
    }
    // clock jumps keep their place in the concatenated call list
    let mut jumps: Vec<(u32, i64, i64)> = Vec::new();
    let mut off = 0u32;
    for t in order {
        if let Some(js) = c.jumps.get(*t) {
            for (k, dm, dr) in js {
                jumps.push((k + off, *dm, *dr));
            }
        }
        off += c.threads[*t].len() as u32;
    }
    let mut depths: Vec<(u32, u32)> = Vec::new();
    let mut off = 0u32;
    for t in order {
        if let Some(ds) = c.depths.get(*t) {
            for (k, kb) in ds {
                depths.push((k + off, *kb));
            }
        }
        off += c.threads[*t].len() as u32;
    }
    // the merged thread keeps the tightest CPU restriction any of the merged threads had
    let cpu = order.iter().filter_map(|t| c.cpus.get(*t).copied()).filter(|x| *x > 0).min().unwrap_or(0);
    Case { threads: vec![calls], churn: vec![vec![]], start: 0, switches: vec![], jumps: vec![jumps], depths: vec![depths], cpus: vec![cpu], entropy: c.entropy, kill_step: c.kill_step, io_fault: c.io_fault, power: c.power, prefix: c.prefix.clone(), next: c.next.clone() }
}

fn merge_two(c: &Case, a: usize, b: usize) -> Case {
    // b's calls run after a's, on a's thread; switches of both threads are dropped
    let mut n = drop_thread(c, b);
    let a2 = if b < a { a - 1 } else { a };
    let off = n.threads[a2].len() as u32;
    if let Some(ds) = c.depths.get(b) {
        if a2 < n.depths.len() {
            for (k, kb) in ds {
                n.depths[a2].push((k + off, *kb));
            }
        }
    }
    if let Some(js) = c.jumps.get(b) {
        if a2 < n.jumps.len() {
            for (k, dm, dr) in js {
                n.jumps[a2].push((k + off, *dm, *dr));
            }
        }
    }
    n.threads[a2].extend(c.threads[b].iter().cloned());
    n.switches.retain(|s| s.thread as usize != a2 && s.to as usize != a2);
    n
}

fn simpler_calls(c: &Call) -> Vec<Call> {
    let mut v = Vec::new();
    for t in ["1", "@", "1+@"] {
        if c.expr != t && c.expr.len() > t.len() {
            v.push(Call { ev: c.ev, expr: t.to_string(), ph: c.ph });
        }
    }
    v
}

/// Shrink `case`, whose run shows violation class `class`. Returns the smallest case found and its result.
pub fn minimise(
    case: Case,
    first: RunResult,
    oc: &mut OracleCache,
    workers: usize,
    budget: Duration,
    max_candidates: usize,
) -> (Case, RunResult, MinStats) {
    let t0 = Instant::now();
    let class = first.violation_class();
    let mut best = case;
    let mut best_res = first;
    if let Some((start, sw)) = best_res.recorded_for(best.prefix.len()) {
        best.start = start;
        best.switches = sw;
    }
    let mut st = MinStats { candidates: 0, accepted: 0, wall_s: 0.0 };
    let over = |st: &MinStats| t0.elapsed() > budget || st.candidates >= max_candidates;

    // try a batch; accept the first candidate (in order) that still shows the class and is smaller
    let try_batch = |best: &mut Case, best_res: &mut RunResult, st: &mut MinStats, cands: Vec<Case>, oc: &mut OracleCache| -> bool {
        if cands.is_empty() {
            return false;
        }
        let tmo = cands.iter().map(case_timeout).max().unwrap_or(Duration::from_secs(2));
        let res = run_cases(&cands, oc, workers, tmo);
        st.candidates += cands.len();
        for (c, r) in cands.into_iter().zip(res.into_iter()) {
            if let Some(r) = r {
                if r.violation_class() == class && class.is_some() && c.size() < best.size() {
                    let mut c = c;
                    if let Some((start, sw)) = r.recorded_for(c.prefix.len()) {
                        c.start = start;
                        c.switches = sw;
                    }
                    if c.size() < best.size() {
                        *best = c;
                        *best_res = r;
                        st.accepted += 1;
                        return true;
                    }
                }
            }
        }
        false
    };

    // the run without its injected I/O errors, if the violation does not need them
    if best.io_fault != 0 && best.next.is_none() {
        let mut c = best.clone();
        c.io_fault = 0;
        try_batch(&mut best, &mut best_res, &mut st, vec![c], oc);
    }

    // like try_batch, but "smaller" = fewer threads first (merging keeps the number of calls)
    let try_batch_any = |best: &mut Case, best_res: &mut RunResult, st: &mut MinStats, cands: Vec<Case>, oc: &mut OracleCache| -> bool {
        if cands.is_empty() {
            return false;
        }
        let tmo = cands.iter().map(case_timeout).max().unwrap_or(Duration::from_secs(2));
        let res = run_cases(&cands, oc, workers, tmo);
        st.candidates += cands.len();
        for (c, r) in cands.into_iter().zip(res.into_iter()) {
            if let Some(r) = r {
                if r.violation_class() == class && class.is_some() && c.total_calls() <= best.total_calls() && c.threads.len() < best.threads.len() {
                    let mut c = c;
                    if let Some((start, sw)) = r.recorded_for(c.prefix.len()) {
                        c.start = start;
                        c.switches = sw;
                    }
                    *best = c;
                    *best_res = r;
                    st.accepted += 1;
                    return true;
                }
            }
        }
        false
    };

    let mut progress = true;
    while progress && !over(&st) {
        progress = false;
        // T0: no switches at all (pure sequential history, threads in index order)
        if !best.switches.is_empty() {
            let mut c = best.clone();
            c.switches.clear();
            c.start = 0;
            if try_batch(&mut best, &mut best_res, &mut st, vec![c], oc) {
                progress = true;
            }
        }
        // T0b: all calls on one thread, in thread order / reverse thread order
        if best.threads.len() > 1 && !over(&st) {
            let n = best.threads.len();
            let fwd: Vec<usize> = (0..n).collect();
            let rev: Vec<usize> = (0..n).rev().collect();
            let cands = vec![merge_all_threads(&best, &fwd), merge_all_threads(&best, &rev)];
            if try_batch_any(&mut best, &mut best_res, &mut st, cands, oc) {
                progress = true;
            }
        }
        // T1: drop whole threads
        loop {
            if best.threads.len() <= 1 || over(&st) {
                break;
            }
            let cands: Vec<Case> = (0..best.threads.len()).map(|t| drop_thread(&best, t)).collect();
            if try_batch(&mut best, &mut best_res, &mut st, cands, oc) {
                progress = true;
            } else {
                break;
            }
        }
        // T1b: merge two threads into one
        loop {
            if best.threads.len() <= 1 || over(&st) {
                break;
            }
            let n = best.threads.len();
            let mut cands = Vec::new();
            for a in 0..n {
                for b in 0..n {
                    if a != b {
                        cands.push(merge_two(&best, a, b));
                    }
                }
            }
            cands.truncate(64);
            if try_batch_any(&mut best, &mut best_res, &mut st, cands, oc) {
                progress = true;
            } else {
                break;
            }
        }
        // T2: ddmin over each thread's calls
        let mut chunk = best.threads.iter().map(|t| t.len()).max().unwrap_or(0);
        while chunk >= 1 && !over(&st) {
            let mut cands = Vec::new();
            for t in 0..best.threads.len() {
                let len = best.threads[t].len();
                let mut a = 0;
                while a < len {
                    let b = (a + chunk).min(len);
                    if best.total_calls() > (b - a) {
                        cands.push(drop_calls(&best, t, a, b));
                    }
                    a = b;
                }
            }
            // bound the batch: evaluate at most 256 candidates per level pass
            cands.truncate(256);
            if try_batch(&mut best, &mut best_res, &mut st, cands, oc) {
                progress = true;
                let m = best.threads.iter().map(|t| t.len()).max().unwrap_or(0);
                chunk = chunk.min(m.max(1));
            } else {
                if chunk == 1 {
                    break;
                }
                chunk = (chunk + 1) / 2;
            }
        }
        // T3: remove switches (chunks, then singly)
        let mut chunk = best.switches.len();
        while chunk >= 1 && !over(&st) && !best.switches.is_empty() {
            let mut cands = Vec::new();
            let len = best.switches.len();
            let mut a = 0;
            while a < len {
                let b = (a + chunk).min(len);
                let mut c = best.clone();
                c.switches.drain(a..b);
                cands.push(c);
                a = b;
            }
            cands.truncate(256);
            if try_batch(&mut best, &mut best_res, &mut st, cands, oc) {
                progress = true;
                chunk = chunk.min(best.switches.len().max(1));
            } else {
                if chunk == 1 {
                    break;
                }
                chunk = (chunk + 1) / 2;
            }
        }
        // T4: move intra-call switches to a call boundary
        loop {
            if over(&st) {
                break;
            }
            let mut cands = Vec::new();
            for i in 0..best.switches.len() {
                if best.switches[i].tick != 0 {
                    let mut c = best.clone();
                    c.switches[i].tick = 0;
                    cands.push(c);
                    let mut c = best.clone();
                    c.switches[i].tick = 0;
                    c.switches[i].call += 1;
                    cands.push(c);
                }
            }
            cands.truncate(256);
            if try_batch(&mut best, &mut best_res, &mut st, cands, oc) {
                progress = true;
            } else {
                break;
            }
        }
        // T5: drop churn points
        loop {
            if over(&st) {
                break;
            }
            let mut cands = Vec::new();
            for t in 0..best.churn.len() {
                for k in 0..best.churn[t].len() {
                    let mut c = best.clone();
                    c.churn[t].remove(k);
                    cands.push(c);
                }
            }
            if try_batch(&mut best, &mut best_res, &mut st, cands, oc) {
                progress = true;
            } else {
                break;
            }
        }
        // T5b: drop clock jumps
        loop {
            if over(&st) {
                break;
            }
            let mut cands = Vec::new();
            if best.jumps.iter().any(|j| !j.is_empty()) {
                let mut c = best.clone();
                for j in c.jumps.iter_mut() {
                    j.clear();
                }
                cands.push(c);
            }
            for t in 0..best.jumps.len() {
                for k in 0..best.jumps[t].len() {
                    let mut c = best.clone();
                    c.jumps[t].remove(k);
                    cands.push(c);
                }
            }
            for t in 0..best.depths.len() {
                for k in 0..best.depths[t].len() {
                    let mut c = best.clone();
                    c.depths[t].remove(k);
                    cands.push(c);
                }
            }
            cands.truncate(128);
            if try_batch(&mut best, &mut best_res, &mut st, cands, oc) {
                progress = true;
            } else {
                break;
            }
        }
        // T6: simpler expressions
        loop {
            if over(&st) || best.total_calls() > 64 {
                break;
            }
            let mut cands = Vec::new();
            for t in 0..best.threads.len() {
                for k in 0..best.threads[t].len() {
                    for s in simpler_calls(&best.threads[t][k]) {
                        let mut c = best.clone();
                        c.threads[t][k] = s;
                        cands.push(c);
                    }
                }
            }
            // the same replacement applied to every call that shares (evaluator, text): keeps "same expression" relations
            let mut groups: Vec<(Ev, String)> = Vec::new();
            for t in &best.threads {
                for c in t {
                    if !groups.contains(&(c.ev, c.expr.clone())) {
                        groups.push((c.ev, c.expr.clone()));
                    }
                }
            }
            for (ev, text) in groups {
                for simple in ["@", "1+@", "@*2", "1"] {
                    if text.len() > simple.len() {
                        let mut c = best.clone();
                        for t in c.threads.iter_mut() {
                            for call in t.iter_mut() {
                                if call.ev == ev && call.expr == text {
                                    call.expr = simple.to_string();
                                }
                            }
                        }
                        cands.push(c);
                    }
                }
            }
            cands.truncate(256);
            if try_batch(&mut best, &mut best_res, &mut st, cands, oc) {
                progress = true;
            } else {
                break;
            }
        }
    }
    st.wall_s = t0.elapsed().as_secs_f64();
    (best, best_res, st)
}


/// Minimise a chained case (several process incarnations on one disk): drop whole earlier phases, then minimise each
/// phase in place with the others fixed (the failing phase first), then drop the kills.
pub fn minimise_chain(case: Case, rr: RunResult, oc: &mut OracleCache, workers: usize, budget: Duration, max_candidates: usize) -> (Case, RunResult, MinStats) {
    let t0 = Instant::now();
    let class = rr.violation_class();
    let mut phases = case.phases();
    let mut best_rr = rr;
    let mut total = MinStats { candidates: 0, accepted: 0, wall_s: 0.0 };
    // 1. earlier phases that are not needed
    let mut j = 0;
    while phases.len() > 1 && j + 1 < phases.len() && t0.elapsed() < budget {
        let mut cand = phases.clone();
        cand.remove(j);
        let c = Case::from_phases(&cand, cand.len() - 1);
        let r = run_cases(&[c.clone()], oc, workers, case_timeout(&c)).pop().flatten();
        total.candidates += 1;
        match r {
            Some(r) if class.is_some() && r.violation_class() == class => {
                phases = cand;
                best_rr = r;
                total.accepted += 1;
            }
            _ => j += 1,
        }
    }
    // 2. each phase in place
    for i in (0..phases.len()).rev() {
        let left = budget.checked_sub(t0.elapsed()).unwrap_or(Duration::from_secs(1)).max(Duration::from_secs(2));
        let focus = Case::from_phases(&phases, i);
        let (mc, mr, ms) = minimise(focus, best_rr.clone(), oc, workers, left / (i as u32 + 1), max_candidates);
        total.candidates += ms.candidates;
        total.accepted += ms.accepted;
        if mr.violation_class() == class {
            phases = mc.phases();
            best_rr = mr;
        }
    }
    // 3. kills that are not needed
    for i in 0..phases.len() {
        if phases[i].switches.iter().any(|s| s.to == crate::sim::KILL) {
            let mut cand = phases.clone();
            cand[i].switches.retain(|s| s.to != crate::sim::KILL);
            let c = Case::from_phases(&cand, cand.len() - 1);
            let r = run_cases(&[c.clone()], oc, workers, case_timeout(&c)).pop().flatten();
            total.candidates += 1;
            if let Some(r) = r {
                if class.is_some() && r.violation_class() == class {
                    phases = cand;
                    best_rr = r;
                    total.accepted += 1;
                }
            }
        }
    }
    // 4. I/O fault plans and power losses that are not needed
    for i in 0..phases.len() {
        for what in 0..2 {
            if (what == 0 && phases[i].io_fault == 0) || (what == 1 && phases[i].power == 0) {
                continue;
            }
            let mut cand = phases.clone();
            if what == 0 {
                cand[i].io_fault = 0;
            } else {
                cand[i].power = 0;
            }
            let c = Case::from_phases(&cand, cand.len() - 1);
            let r = run_cases(&[c.clone()], oc, workers, case_timeout(&c)).pop().flatten();
            total.candidates += 1;
            if let Some(r) = r {
                if class.is_some() && r.violation_class() == class {
                    phases = cand;
                    best_rr = r;
                    total.accepted += 1;
                }
            }
        }
    }
    total.wall_s = t0.elapsed().as_secs_f64();
    let k = phases.len() - 1;
    (Case::from_phases(&phases, k), best_rr, total)
}
