//! The check: pool -> oracle -> determinism self-check -> seeded search over runs -> minimise -> evidence.

use crate::case::*;
use crate::gen::{self, Pool, PoolSizes};
use crate::minimise::minimise;
use crate::oracle::{self, OracleStats};
use crate::proc::{self, Exit};
use crate::sim::{self, RunSpec, NSITES, SITE_NAMES};
use crate::types::*;
use crate::workload::{self, PoolIndex, RunKind, FAULT_NAMES};
use serde_json::{json, Map, Value};
use std::collections::{BTreeMap, BTreeSet};
use std::time::{Duration, Instant};

pub struct MiriCfg {
    pub seeds: usize,
    pub calls: usize,
    pub threads: usize,
    pub timeout_s: u64,
}

pub struct Tier {
    pub miri: MiriCfg,
    pub name: &'static str,
    pub sizes: PoolSizes,
    pub recheck_every: usize,
    pub det_seeds: usize,
    pub short_runs: usize,
    pub short_budget_s: u64,
    pub wide_runs: usize,
    pub long_runs: usize,
    pub long_calls: usize,
    pub min_budget_s: u64,
}

pub fn overflow_checks_on() -> bool {
    std::panic::catch_unwind(|| {
        let x: u8 = std::hint::black_box(255);
        std::hint::black_box(x + std::hint::black_box(1))
    })
    .is_err()
}

pub fn tier(name: &str) -> Tier {
    if name == "ovf" {
        // the reduced pass run by the overflow-checks build on behalf of the thorough tier
        return Tier {
            miri: MiriCfg { seeds: 0, calls: 0, threads: 0, timeout_s: 0 },
            name: "ovf",
            sizes: PoolSizes { gen_per_ev: 600, cross_texts: 110, malformed_per_ev: 60, extreme_per_ev: 100, sibling_families_per_ev: 40, pair_samples_per_ev: 120, all_pairs: false, max_corpus: 300, rel_families_per_ev: 40 },
            recheck_every: 0,
            det_seeds: 40,
            short_runs: 500_000,
            short_budget_s: 150,
            wide_runs: 3_000,
            long_runs: 32,
            long_calls: 8_000,
            min_budget_s: 40,
        };
    }
    if name == "thorough" {
        Tier {
            miri: MiriCfg { seeds: 48, calls: 80, threads: 3, timeout_s: 1500 },
            name: "thorough",
            sizes: PoolSizes { gen_per_ev: 4000, cross_texts: 1200, malformed_per_ev: 600, extreme_per_ev: 500, sibling_families_per_ev: 300, pair_samples_per_ev: 0, all_pairs: true, max_corpus: 2000, rel_families_per_ev: 300 },
            recheck_every: 1,
            det_seeds: 5000,
            short_runs: 3_000_000,
            short_budget_s: 900,
            wide_runs: 20_000,
            long_runs: 64,
            long_calls: 100_000,
            min_budget_s: 120,
        }
    } else {
        Tier {
            miri: MiriCfg { seeds: 4, calls: 30, threads: 3, timeout_s: 150 },
            name: "quick",
            sizes: PoolSizes { gen_per_ev: 600, cross_texts: 110, malformed_per_ev: 60, extreme_per_ev: 100, sibling_families_per_ev: 40, pair_samples_per_ev: 120, all_pairs: false, max_corpus: 300, rel_families_per_ev: 40 },
            recheck_every: 7,
            det_seeds: 200,
            short_runs: 100_000,
            short_budget_s: 45,
            wide_runs: 1_500,
            long_runs: 32,
            long_calls: 8_000,
            min_budget_s: 40,
        }
    }
}

#[derive(Default)]
pub struct BatchStats {
    pub name: String,
    pub planned: usize,
    pub completed: u64, // runs that ended with a verdict (ok or violation)
    pub ok: u64,
    pub violations: Vec<(usize, Value)>, // run index, record
    pub inconclusive: u64,
    pub inconclusive_why: BTreeMap<String, u64>,
    pub lost_control: u64,
    pub crashed: u64,
    pub calls: u64,
    pub ticks: u64,
    pub steps: u64,
    pub switches: u64,
    pub f: [u64; 10],
    pub preempt_site: [u64; NSITES],
    pub pairs: BTreeMap<(u8, u8), u64>,
    pub work_differs: u64,
    pub sens_calls: u64,
    pub clock_reads: u64,
    pub block_ticks: u64,
    pub shared_hits: u64,
    pub futex_waits: u64,
    pub lib_threads: u64,
    pub timeouts: u64,
    pub sleeps: u64,
    pub yields: u64,
    pub rescued: u64,
    pub file_ops: u64,
    pub file_points: u64,
    pub file_holds: u64,
    pub phases: u64,
    pub kills: u64,
    pub io_plans: u64,
    pub io_injected: [u64; 8],
    pub power_losses: u64,
    pub power_loss_files: u64,
    pub us_spawn: u64,
    pub us_total: u64,
    pub sched_nontrivial: BTreeSet<u64>,
    pub runs_with_preempt: u64,
    pub by_policy: BTreeMap<String, u64>,
    pub by_threads: BTreeMap<u64, u64>,
    pub max_inflight: u64,
    pub traces: Vec<(usize, Value)>,
    pub hashes: BTreeMap<usize, String>,
    pub wall_s: f64,
    pub degraded: bool,
    pub crash_examples: Vec<String>,
}

fn seed_for(base: u64, stream: u64, i: usize) -> u64 {
    mix(mix(base, stream), i as u64)
}

#[allow(clippy::too_many_arguments)]
pub fn run_batch(
    name: &str,
    pool: &Pool,
    ix: &PoolIndex,
    base: u64,
    stream: u64,
    kind: RunKind,
    n: usize,
    workers: usize,
    timeout: Duration,
    deadline: Option<Instant>,
    keep_hashes: bool,
    trace_first: usize,
    max_violations: u32,
    force_no_intra: bool,
) -> BatchStats {
    let t0 = Instant::now();
    let stop = std::cell::Cell::new(false);
    let degrade = std::cell::Cell::new(force_no_intra);
    let mut bs = BatchStats { name: name.to_string(), planned: n, ..Default::default() };
    let mut consecutive_lost = 0u32;
    proc::zmap(
        n,
        workers,
        timeout,
        deadline,
        &mut || !stop.get(),
        &mut |i| {
            let allow_intra = !degrade.get();
            let mut spec = workload::make_spec(pool, ix, seed_for(base, stream, i), kind, allow_intra);
            spec.want_trace = i < trace_first;
            Some(crate::wire::encode_run(pool, &spec))
        },
        &mut |i, bytes, exit| {
            let r = classify(&bytes, exit);
            match r.status.as_str() {
                "ok" | "violation" => {
                    consecutive_lost = 0;
                    bs.completed += 1;
                    let v = &r.rec;
                    let g = |k: &str| v.get(k).and_then(|x| x.as_u64()).unwrap_or(0);
                    bs.calls += g("calls");
                    bs.ticks += g("ticks");
                    bs.steps += g("steps");
                    bs.switches += g("sw");
                    bs.work_differs += g("wd");
                    bs.sens_calls += g("sens");
                    bs.clock_reads += g("cr");
                    bs.block_ticks += g("bt");
                    bs.shared_hits += g("shh");
                    bs.futex_waits += g("fw");
                    bs.lib_threads += g("hl");
                    bs.timeouts += g("tmo");
                    bs.sleeps += g("slp");
                    bs.yields += g("yld");
                    bs.rescued += g("rsc");
                    bs.file_ops += g("fo");
                    bs.file_points += g("fp");
                    bs.file_holds += g("fh");
                    bs.phases += g("phases");
                    bs.kills += g("kills");
                    bs.io_plans += g("iop");
                    bs.power_losses += g("pl");
                    bs.power_loss_files += g("plf");
                    if let Some(a) = v.get("iof").and_then(|x| x.as_array()) {
                        for (k, x) in a.iter().enumerate().take(8) {
                            bs.io_injected[k] += x.as_u64().unwrap_or(0);
                        }
                    }
                    bs.us_spawn += g("us_spawn");
                    bs.us_total += g("us_total");
                    bs.max_inflight = bs.max_inflight.max(g("mi"));
                    if let Some(a) = v.get("f").and_then(|x| x.as_array()) {
                        for (k, x) in a.iter().enumerate().take(10) {
                            bs.f[k] += x.as_u64().unwrap_or(0);
                        }
                    }
                    let mut preempted = false;
                    if let Some(a) = v.get("ps").and_then(|x| x.as_array()) {
                        for (k, x) in a.iter().enumerate().take(NSITES) {
                            let c = x.as_u64().unwrap_or(0);
                            bs.preempt_site[k] += c;
                            if c > 0 {
                                preempted = true;
                            }
                        }
                    }
                    if let Some(a) = v.get("pairs").and_then(|x| x.as_array()) {
                        for p in a {
                            if let Some(q) = p.as_array() {
                                if q.len() == 3 {
                                    let key = (q[0].as_u64().unwrap_or(0) as u8, q[1].as_u64().unwrap_or(0) as u8);
                                    *bs.pairs.entry(key).or_insert(0) += q[2].as_u64().unwrap_or(0);
                                }
                            }
                        }
                    }
                    if preempted {
                        bs.runs_with_preempt += 1;
                        if let Some(sh) = v.get("sh").and_then(|x| x.as_str()) {
                            if let Ok(h) = u64::from_str_radix(sh, 16) {
                                bs.sched_nontrivial.insert(h);
                            }
                        }
                    }
                    *bs.by_policy.entry(v.get("pf").and_then(|x| x.as_str()).unwrap_or("?").to_string()).or_insert(0) += 1;
                    *bs.by_threads.entry(g("nt")).or_insert(0) += 1;
                    if keep_hashes {
                        bs.hashes.insert(i, r.hash());
                    }
                    if i < trace_first && r.status == "ok" {
                        bs.traces.push((i, r.rec.clone()));
                    }
                    if r.status == "violation" {
                        bs.violations.push((i, r.rec.clone()));
                        if bs.violations.len() as u32 >= max_violations {
                            stop.set(true);
                        }
                    } else {
                        bs.ok += 1;
                    }
                }
                "inconclusive" => {
                    consecutive_lost = 0;
                    bs.inconclusive += 1;
                    *bs.inconclusive_why.entry(r.rec.get("why").and_then(|x| x.as_str()).unwrap_or("?").to_string()).or_insert(0) += 1;
                }
                "lost_control" => {
                    bs.lost_control += 1;
                    if bs.crash_examples.len() < 5 {
                        bs.crash_examples.push(format!("run {} (seed {}): no result within the wall-clock limit", i, seed_for(base, stream, i)));
                    }
                    consecutive_lost += 1;
                    // many runs stall on something the simulator cannot see (a lock held across tick sites):
                    // stop pre-empting inside calls for the rest of this invocation, keep judging at call granularity
                    let seen = bs.lost_control + bs.completed + bs.inconclusive;
                    if !degrade.get() && (consecutive_lost >= 20 || (bs.lost_control >= 32 && bs.lost_control * 50 >= seen)) {
                        degrade.set(true);
                        bs.degraded = true;
                    }
                }
                _ => {
                    bs.crashed += 1;
                    if bs.crash_examples.len() < 5 {
                        bs.crash_examples.push(format!("run {}: {:?} {}", i, exit, r.rec));
                    }
                }
            }
        },
    );
    bs.wall_s = t0.elapsed().as_secs_f64();
    bs
}

// ---------------------------------------------------------------------------

pub fn seam_audit(repo: &str) -> Vec<String> {
    let pats = [
        "std::time", "Instant", "SystemTime", "std::env", "HashMap", "HashSet", "RandomState", "rand::", "thread::spawn",
        "std::fs", "std::net", "std::process", "thread_local", "static mut", "static ", "OnceLock", "OnceCell", "lazy_static",
        "Mutex", "RwLock", "Atomic", "UnsafeCell", "RefCell", "unsafe ",
    ];
    let mut out = Vec::new();
    fn walk(dir: &std::path::Path, files: &mut Vec<std::path::PathBuf>) {
        if let Ok(rd) = std::fs::read_dir(dir) {
            let mut ents: Vec<_> = rd.filter_map(|e| e.ok()).map(|e| e.path()).collect();
            ents.sort();
            for p in ents {
                if p.is_dir() {
                    walk(&p, files);
                } else if p.extension().map_or(false, |e| e == "rs") {
                    files.push(p);
                }
            }
        }
    }
    let mut files = Vec::new();
    walk(std::path::Path::new(&format!("{}/src", repo)), &mut files);
    for f in files {
        if f.file_name().map_or(false, |n| n == "verif_hooks.rs") {
            continue;
        }
        if let Ok(s) = std::fs::read_to_string(&f) {
            for (ln, line) in s.lines().enumerate() {
                let t = line.trim_start();
                if t.starts_with("//") {
                    continue;
                }
                for p in pats {
                    if line.contains(p) {
                        // `'static` lifetimes and string mentions are noise but harmless: this list never fails a check
                        if p == "static " && (line.contains("'static") && !line.contains("static mut") && !t.starts_with("static") && !t.starts_with("pub static")) {
                            continue;
                        }
                        out.push(format!("{}:{}: {}", f.display(), ln + 1, p.trim()));
                        break;
                    }
                }
            }
        }
    }
    out
}

fn pairs_fill(pairs: &BTreeMap<(u8, u8), u64>) -> (usize, usize) {
    // from: a real tick site (0..SITE_COUNT); to: any real site or boundary
    let filled = pairs.iter().filter(|((a, b), n)| (*a as usize) < sim::BOUNDARY && (*b as usize) <= sim::BOUNDARY && **n > 0).count();
    (filled, sim::BOUNDARY * (sim::BOUNDARY + 1))
}

fn site_map(a: &[u64; NSITES]) -> Value {
    let mut m = Map::new();
    for (i, n) in a.iter().enumerate() {
        m.insert(SITE_NAMES[i].to_string(), json!(n));
    }
    Value::Object(m)
}

fn batch_json(b: &BatchStats) -> Value {
    let (filled, cells) = pairs_fill(&b.pairs);
    json!({
        "name": b.name, "runs_planned": b.planned, "runs_with_verdict": b.completed, "ok": b.ok,
        "violations": b.violations.len(), "inconclusive": b.inconclusive, "inconclusive_by_reason": b.inconclusive_why, "lost_control": b.lost_control,
        "crashed": b.crashed, "crash_examples": b.crash_examples, "degraded_to_call_granularity": b.degraded,
        "calls": b.calls, "ticks": b.ticks, "block_ticks": b.block_ticks, "decision_points": b.steps, "context_switches": b.switches,
        "shared_access_hits": b.shared_hits, "futex_waits_intercepted": b.futex_waits, "virtual_clock_reads": b.clock_reads,
        "library_threads_adopted": b.lib_threads, "timed_waits_ended_by_the_scheduler": b.timeouts, "sleeps_intercepted": b.sleeps, "yields_intercepted": b.yields,
        "wakeups_from_outside_the_simulator": b.rescued,
        "library_file_operations_redirected_to_the_private_disk": b.file_ops, "file_operation_decision_points": b.file_points, "writers_held_back_after_a_file_operation": b.file_holds, "process_incarnations": b.phases, "processes_killed_mid_run": b.kills,
        "process_incarnations_with_an_io_fault_plan": b.io_plans,
        "io_faults_injected": crate::disk::IO_KINDS.iter().zip(b.io_injected.iter()).map(|(k, v)| (k.to_string(), *v)).collect::<BTreeMap<String, u64>>(),
        "power_losses": b.power_losses, "files_that_lost_unsynced_data": b.power_loss_files,
        "runs_with_intra_call_preemption": b.runs_with_preempt,
        "distinct_schedules_with_intra_call_preemption": b.sched_nontrivial.len(),
        "max_calls_in_flight": b.max_inflight,
        "by_policy": b.by_policy, "by_threads": b.by_threads.iter().map(|(k, v)| (k.to_string(), *v)).collect::<BTreeMap<String, u64>>(),
        "site_pair_cells_filled": filled, "site_pair_cells": cells,
        "wall_s": (b.wall_s * 100.0).round() / 100.0,
        "mean_run_child_us": if b.ok > 0 { b.us_total / b.ok } else { 0 }, "mean_thread_spawn_us": if b.ok > 0 { b.us_spawn / b.ok } else { 0 },
        "runs_per_s": if b.wall_s > 0.0 { (b.completed as f64 / b.wall_s).round() } else { 0.0 },
    })
}

/// Where does the tree under test differ from the commit the hooks were verified at? Used only to direct part
/// of the search (function-themed runs) at the code that changed; no diff, or no git, means no direction.
pub struct ChangeHints {
    pub base: String,
    pub files: Vec<String>,
    pub evs: Vec<Ev>,
    pub tokens: Vec<String>,
    /// words and example expressions that only the added lines of the change contain (string and character
    /// literals, `code spans` of comments and documentation): candidates for syntax the change introduces
    pub new_words: Vec<String>,
    pub new_examples: Vec<String>,
}

/// Candidates for new syntax: what the added lines of a diff quote. A tokenizer that learns a new word has to spell
/// it somewhere - as a string literal ("deg:"), as a first character plus the rest ('d' ... "eg("), or in the
/// documentation that announces it (`deg(sin(90))`).
fn new_vocabulary(diff_all: &str) -> (Vec<String>, Vec<String>) {
    let mut words: Vec<String> = Vec::new();
    let mut examples: Vec<String> = Vec::new();
    let mut old_text = String::new();
    for l in diff_all.lines() {
        if !l.starts_with('+') {
            old_text.push_str(l);
            old_text.push('\n');
        }
    }
    let wordish = |w: &str| -> bool {
        let n = w.chars().count();
        n >= 1 && n <= 12 && !w.chars().any(|c| c.is_whitespace() || c == '{' || c == '}' || c == '/' || c == '\\' || c == '"' || c == '\'') && !w.starts_with("eval_") && !w.chars().all(|c| c.is_ascii_digit() || c == '.')
    };
    let mut recent_chars: Vec<(usize, char)> = Vec::new();
    let mut in_fence = false;
    let cut_example = |ex: &str, examples: &mut Vec<String>| {
        // the expression itself, and the part before a result annotation (`= 1`, `=> 1`, `-> 1`, `// ...`)
        let ex = ex.trim();
        if ex.is_empty() || ex.chars().count() > 80 {
            return;
        }
        examples.push(ex.to_string());
        for sep in [" = ", " => ", " -> ", " // ", " == "] {
            if let Some(i) = ex.find(sep) {
                let head = ex[..i].trim();
                if !head.is_empty() {
                    examples.push(head.to_string());
                }
            }
        }
    };
    for (ln, l) in diff_all.lines().enumerate() {
        if !l.starts_with('+') || l.starts_with("+++") {
            continue;
        }
        {
            // fenced code blocks of documentation: every line is an example
            let t = l[1..].trim_start();
            let t = t.strip_prefix("//!").or_else(|| t.strip_prefix("///")).unwrap_or(t).trim();
            if t.starts_with("```") {
                in_fence = !in_fence;
                continue;
            }
            if in_fence {
                if !t.contains("eval_") && !t.contains("::") && !t.starts_with("use ") && !t.starts_with("let ") {
                    cut_example(t, &mut examples);
                }
                continue;
            }
        }
        let body: Vec<char> = l[1..].chars().collect();
        let mut i = 0;
        while i < body.len() {
            match body[i] {
                '"' => {
                    let mut j = i + 1;
                    let mut lit = String::new();
                    while j < body.len() && body[j] != '"' {
                        if body[j] == '\\' {
                            lit.push('\\');
                            j += 1;
                        }
                        if j < body.len() {
                            lit.push(body[j]);
                        }
                        j += 1;
                    }
                    if j < body.len() && wordish(&lit) {
                        words.push(lit.clone());
                        for (cl, c) in recent_chars.iter() {
                            if ln - cl <= 4 {
                                words.push(format!("{}{}", c, lit));
                            }
                        }
                    }
                    i = j + 1;
                }
                '\'' if i + 2 < body.len() && body[i + 2] == '\'' && body[i + 1] != '\\' => {
                    let c = body[i + 1];
                    if !c.is_whitespace() && !c.is_ascii_digit() {
                        recent_chars.push((ln, c));
                        if !c.is_ascii_alphanumeric() {
                            words.push(c.to_string());
                        }
                    }
                    i += 3;
                }
                '`' => {
                    let mut j = i + 1;
                    let mut span = String::new();
                    while j < body.len() && body[j] != '`' {
                        span.push(body[j]);
                        j += 1;
                    }
                    if j < body.len() && !span.is_empty() && span.chars().count() <= 60 && !span.contains("::") && !span.contains("eval_") {
                        // `deg(x)` -> the word `deg(`; the span itself, with x as the placeholder, as an example
                        let head: String = span.chars().take_while(|c| c.is_alphanumeric() || *c == '_').collect();
                        let rest: String = span.chars().skip(head.chars().count()).collect();
                        if !head.is_empty() && rest.starts_with('(') {
                            words.push(format!("{}(", head));
                        } else if !head.is_empty() && rest.starts_with(':') {
                            words.push(format!("{}:", head));
                        } else if wordish(&span) {
                            words.push(span.clone());
                        }
                        if span.contains('(') || span.chars().any(|c| "+-*/^=;@".contains(c)) {
                            cut_example(&span, &mut examples);
                            cut_example(&span.replace("(x)", "(@)").replace("(x,", "(@,").replace(" x", " @").replace("expr", "@+1"), &mut examples);
                        }
                    }
                    i = j + 1;
                }
                _ => i += 1,
            }
        }
    }
    // atoms: a quoted symbol followed by letters / digits somewhere in an example (`$r` in `$r=2+@; pi*$r^2`)
    {
        let symbols: Vec<char> = words.iter().filter(|w| w.chars().count() == 1).filter_map(|w| w.chars().next()).filter(|c| !c.is_alphanumeric() && !"+-*/^(),.@ ".contains(*c)).collect();
        let mut atoms: Vec<String> = Vec::new();
        for ex in examples.iter() {
            let cs: Vec<char> = ex.chars().collect();
            for i in 0..cs.len() {
                if symbols.contains(&cs[i]) {
                    let tail: String = cs[i + 1..].iter().take_while(|c| c.is_alphanumeric()).collect();
                    if !tail.is_empty() && tail.chars().count() <= 6 {
                        atoms.push(format!("{}{}", cs[i], tail));
                    }
                }
            }
        }
        atoms.sort();
        atoms.dedup();
        atoms.truncate(4);
        for a in atoms.into_iter().rev() {
            words.insert(0, a);
        }
    }
    // only what the old text does not already contain; known names of the library are not new either
    let known: BTreeSet<&str> = workload::FN_TOKENS.iter().copied().collect();
    let mut seen: BTreeSet<String> = BTreeSet::new();
    let mut out: Vec<String> = Vec::new();
    for w in words {
        if known.contains(w.as_str()) || known.contains(format!("{}(", w).as_str()) || !seen.insert(w.clone()) {
            continue;
        }
        let quoted_before = old_text.contains(&format!("\"{}\"", w)) || old_text.contains(&format!("`{}", w));
        if quoted_before {
            continue;
        }
        out.push(w);
    }
    // words with a shape of their own (a bracket, a colon, a symbol) first; plain short letter groups last
    out.sort_by_key(|w| (w.chars().all(|c| c.is_ascii_alphanumeric()) as u8, (w.chars().count() < 2) as u8));
    out.truncate(12);
    examples.sort();
    examples.dedup();
    examples.truncate(24);
    (out, examples)
}

fn variant_tokens(v: &str) -> &'static [&'static str] {
    match v {
        "Add" => &["+"],
        "Subtract" | "Negative" => &["-"],
        "Multiply" => &["*"],
        "Divide" => &["/"],
        "Modulo" | "Mod" => &["%", "mod("],
        "Pow" | "Caret" => &["^", "pow(", "SUPERSCRIPT"],
        "Superscript" => &["SUPERSCRIPT"],
        "Root" => &["root("],
        "Log" => &["log("],
        "ILog" => &["ilog("],
        "Lb" => &["lb("],
        "Ln" => &["ln("],
        "Exp" => &["exp("],
        "Exp2" => &["exp2("],
        "Sqrt" => &["sqrt("],
        "Abs" => &["abs("],
        "Floor" | "LeftFloor" | "RightFloor" => &["floor(", "⌊"],
        "Ceil" | "LeftCeiling" | "RightCeiling" => &["ceil(", "⌈"],
        "Round" => &["round("],
        "Truncate" => &["trunc(", "truncate("],
        "Sign" => &["sgn(", "sign(", "signum("],
        "Sin" => &["sin("],
        "Cos" => &["cos("],
        "Tan" => &["tan("],
        "Asin" => &["asin("],
        "Acos" => &["acos("],
        "Atan" => &["atan("],
        "Sinh" => &["sinh("],
        "Cosh" => &["cosh("],
        "Tanh" => &["tanh("],
        "Arsinh" => &["asinh(", "arsinh("],
        "Arcosh" => &["acosh(", "arcosh("],
        "Artanh" => &["atanh(", "artanh("],
        "Atan2" => &["atan2("],
        "LambertW" => &["w(", "lambert_w("],
        "Factorial" | "ExclamationMark" => &["!"],
        "Min" => &["min("],
        "Max" => &["max("],
        "Avg" => &["avg("],
        "Med" => &["med(", "median("],
        "Gcd" => &["gcd("],
        "Lcm" => &["lcm("],
        "LeftShift" => &["<<"],
        "RightShift" => &[">>"],
        "BitwiseAnd" | "And" => &["&"],
        "BitwiseOr" | "Or" => &["|"],
        "DegToRad" => &["°"],
        "RadToDeg" => &["rad"],
        "Pi" => &["π", "pi"],
        "Ans" => &["@"],
        "Num" => &["LITERAL."],
        _ => &[],
    }
}

pub fn change_hints(repo: &str, verif: &str) -> ChangeHints {
    let mut h = ChangeHints { base: String::new(), files: Vec::new(), evs: Vec::new(), tokens: Vec::new(), new_words: Vec::new(), new_examples: Vec::new() };
    // base commit: the hook commit recorded in MANIFEST.json, else HEAD
    let base = std::fs::read_to_string(format!("{}/MANIFEST.json", verif))
        .ok()
        .and_then(|s| serde_json::from_str::<Value>(&s).ok())
        .and_then(|v| v["hooks"]["source_commits"].as_array().and_then(|a| a.last().and_then(|x| x.as_str().map(|y| y.to_string()))))
        .unwrap_or_else(|| "HEAD".to_string());
    let run = |base: &str| -> Option<String> {
        let out = std::process::Command::new("git")
            .args(["-C", repo, "diff", "-U14", "--no-color", "--no-ext-diff", base, "--", "src", "Cargo.toml"])
            .stdin(std::process::Stdio::null())
            .stderr(std::process::Stdio::null())
            .output()
            .ok()?;
        if !out.status.success() {
            return None;
        }
        Some(String::from_utf8_lossy(&out.stdout).to_string())
    };
    let (diff, used) = match run(&base) {
        Some(d) => (d, base),
        None => match run("HEAD") {
            Some(d) => (d, "HEAD".to_string()),
            None => return h,
        },
    };
    h.base = used;
    // vocabulary: the whole change, documentation included
    if let Ok(out) = std::process::Command::new("git").args(["-C", repo, "diff", "-U3", "--no-color", "--no-ext-diff", &h.base]).stdin(std::process::Stdio::null()).stderr(std::process::Stdio::null()).output() {
        if out.status.success() {
            let mut all = String::from_utf8_lossy(&out.stdout).to_string();
            // untracked new source files count as added lines
            if let Ok(o2) = std::process::Command::new("git").args(["-C", repo, "ls-files", "--others", "--exclude-standard", "--", "src", "README.md", "CHANGELOG.md"]).stderr(std::process::Stdio::null()).output() {
                for f in String::from_utf8_lossy(&o2.stdout).lines() {
                    if let Ok(txt) = std::fs::read_to_string(format!("{}/{}", repo, f)) {
                        for l in txt.lines() {
                            all.push('+');
                            all.push_str(l);
                            all.push('\n');
                        }
                    }
                }
            }
            let (w, e) = new_vocabulary(&all);
            h.new_words = w;
            h.new_examples = e;
        }
    }
    // untracked new files do not show in `git diff`: list them too
    if let Ok(out) = std::process::Command::new("git").args(["-C", repo, "ls-files", "--others", "--exclude-standard", "--", "src"]).stderr(std::process::Stdio::null()).output() {
        for l in String::from_utf8_lossy(&out.stdout).lines() {
            h.files.push(l.to_string());
        }
    }
    let mut toks: BTreeSet<String> = BTreeSet::new();
    let mut evs: BTreeSet<Ev> = BTreeSet::new();
    let mut in_changed_hunk_lines: Vec<&str> = Vec::new();
    for l in diff.lines() {
        if let Some(f) = l.strip_prefix("+++ b/") {
            h.files.push(f.to_string());
            continue;
        }
        if l.starts_with("--- ") || l.starts_with("diff ") || l.starts_with("index ") {
            continue;
        }
        in_changed_hunk_lines.push(l);
    }
    h.files.sort();
    h.files.dedup();
    for f in &h.files {
        for (d, e) in [("eval_f64", Ev::F64), ("eval_i64", Ev::I64), ("eval_decimal", Ev::Dec), ("eval_complex", Ev::Cx), ("eval_number", Ev::Num)] {
            if f.contains(d) {
                evs.insert(e);
            }
        }
        if f.contains("superscript") {
            toks.insert("SUPERSCRIPT".into());
        }
    }
    // identifiers that name AST nodes / tokens: on the changed lines themselves, and on the head of the
    // match arm that encloses a run of changed lines (the nearest preceding line with `=>`)
    let idents = |body: &str, toks: &mut BTreeSet<String>| {
        let mut word = String::new();
        for ch in body.chars().chain(std::iter::once(' ')) {
            if ch.is_ascii_alphanumeric() || ch == '_' {
                word.push(ch);
            } else {
                if !word.is_empty() && word.chars().next().map_or(false, |c| c.is_ascii_uppercase()) {
                    for x in variant_tokens(&word) {
                        toks.insert(x.to_string());
                    }
                }
                word.clear();
            }
        }
    };
    let mut last_arm: Option<&str> = None;
    let mut prev_changed = false;
    for l in in_changed_hunk_lines {
        if l.starts_with("@@") {
            last_arm = None;
            prev_changed = false;
            continue;
        }
        let changed = l.starts_with('+') || l.starts_with('-');
        let body = if l.is_empty() { l } else { &l[1..] };
        if changed {
            if !prev_changed {
                if let Some(arm) = last_arm {
                    idents(arm, &mut toks);
                }
            }
            idents(body, &mut toks);
            if body.contains("is_ascii_digit") {
                toks.insert("LITERAL.".into());
            }
        }
        if body.contains("=>") {
            last_arm = Some(body);
        }
        prev_changed = changed;
    }
    h.evs = evs.into_iter().collect();
    // too many tokens means the change is not local: no token direction
    h.tokens = if toks.len() > 12 { Vec::new() } else { toks.into_iter().collect() };
    h
}

pub struct CheckOpts {
    pub evidence_out: Option<String>,
    pub ovf_bin: Option<String>,
    pub tier: String,
    pub seed: u64,
    pub repo: String,
    pub verif: String,
    pub workers: usize,
    pub scale: f64,
}

struct Finding {
    file: String,
    class: (String, String),
    case: Case,
    known: Option<String>,
    confidence: String,
}

fn known_findings(verif: &str) -> Vec<Value> {
    let p = format!("{}/known_findings.json", verif);
    match std::fs::read_to_string(&p) {
        Ok(s) => match serde_json::from_str::<Value>(&s) {
            Ok(v) => v.get("findings").and_then(|f| f.as_array()).cloned().unwrap_or_default(),
            Err(_) => Vec::new(),
        },
        Err(_) => Vec::new(),
    }
}

fn case_signature(case: &Case) -> Vec<String> {
    let mut v: Vec<String> = case
        .threads
        .iter()
        .flat_map(|t| t.iter())
        .map(|c| format!("{}|{}|{}", c.ev.name(), c.expr, c.ph.encode()))
        .collect();
    v.sort();
    v.dedup();
    v
}

fn match_known(known: &[Value], class: &(String, String), case: &Case) -> Option<String> {
    let sig = case_signature(case);
    for k in known {
        if k.get("property").and_then(|p| p.as_str()) != Some("C16") {
            continue;
        }
        if k.get("status").and_then(|p| p.as_str()) != Some("known") {
            continue;
        }
        let s = match k.get("signature") {
            Some(s) => s,
            None => continue,
        };
        if s.get("evaluator").and_then(|x| x.as_str()) != Some(class.0.as_str()) {
            continue;
        }
        if s.get("kind").and_then(|x| x.as_str()) != Some(class.1.as_str()) {
            continue;
        }
        let calls: Vec<String> = s
            .get("calls")
            .and_then(|c| c.as_array())
            .map(|a| a.iter().filter_map(|x| x.as_str().map(|y| y.to_string())).collect())
            .unwrap_or_default();
        let mut calls = calls;
        calls.sort();
        calls.dedup();
        if calls == sig {
            return Some(k.get("what").and_then(|w| w.as_str()).unwrap_or("listed finding").to_string());
        }
    }
    None
}

pub fn write_replay_file(
    verif: &str,
    tag: &str,
    seed: u64,
    tier: &str,
    origin: &Value,
    case: &Case,
    res: &RunResult,
    confidence: &str,
    min: Option<&crate::minimise::MinStats>,
) -> String {
    let dir = format!("{}/replays", verif);
    let _ = std::fs::create_dir_all(&dir);
    let ovf = overflow_checks_on();
    let path = format!("{}/C16-{}{}.json", dir, if ovf { "ovf-" } else { "" }, tag);
    let mut v = json!({
        "property": "C16",
        "format": "sc_sim replay v1: threads = per client the calls in order; switches = [thread, call_no, tick, to_thread] in global order (tick 0 = boundary before call_no; call_no = number of calls = thread exit); start = first thread to run; when the list runs out threads finish in index order; clock_jumps = per thread [call_no, monotonic_jump_ns, wall_clock_jump_ns] applied to the run's virtual clock at the boundary before that call; positions count source ticks and, when granularity is basic_block, block ticks of the instrumented build",
        "granularity": if crate::tick::bb_guards() > 0 { "basic_block" } else { "source_tick" },
        "build": if ovf { "overflow_checks" } else { "release" },
        "seed": seed, "tier": tier, "origin": origin,
        "violation": res.rec.get("violation").cloned().unwrap_or(Value::Null),
        "event_log_hash": res.hash(),
        "replay_confidence": confidence,
    });
    if let Some(m) = min {
        v["minimisation"] = json!({"candidates_run": m.candidates, "accepted": m.accepted, "wall_s": m.wall_s});
    }
    let cj = case.to_json();
    // every field of the case, phases before and after included: the file alone must reproduce the run
    if let Some(o) = cj.as_object() {
        for (k, x) in o {
            v[k.as_str()] = x.clone();
        }
    }
    let _ = std::fs::write(&path, serde_json::to_string_pretty(&v).unwrap_or_default());
    path
}

fn sample_from_trace(pool: &Pool, ix: &PoolIndex, base: u64, stream: u64, kind: RunKind, i: usize, rec: &Value) -> Value {
    let spec = workload::make_spec(pool, ix, seed_for(base, stream, i), kind, true);
    let threads: Vec<Vec<String>> = spec
        .clients
        .iter()
        .map(|c| {
            c.iter()
                .map(|e| {
                    let c = &pool.entries[*e as usize].call;
                    format!("{}({:?}, {})", c.ev.name(), c.expr, c.ph.display())
                })
                .collect()
        })
        .collect();
    json!({
        "run_seed": seed_for(base, stream, i), "policy": spec.policy.name(), "faults_enabled": spec.faults_enabled,
        "threads": threads, "churn": spec.churn,
        "start": rec.get("start").cloned().unwrap_or(Value::Null),
        "switches_thread_call_tick_to": rec.get("switches").cloned().unwrap_or(Value::Null),
        "event_log_hash": rec.get("h").cloned().unwrap_or(Value::Null),
        "calls": rec.get("calls").cloned().unwrap_or(Value::Null), "ticks": rec.get("ticks").cloned().unwrap_or(Value::Null),
    })
}

/// Rebuild the replayable case of a violating run from its seed and record.
fn case_of_violation(pool: &Pool, ix: &PoolIndex, base: u64, stream: u64, kind: RunKind, i: usize, rec: &Value, no_intra: bool) -> Option<Case> {
    // the record tells which policy family ran; regenerate with the matching `allow_intra`
    let pn = rec.get("pn").and_then(|x| x.as_str()).unwrap_or("");
    if kind == RunKind::Restart {
        // a chained run: the phases before the failing one with the switch lists they recorded, the failing one
        // with its own; later phases never ran
        let k = rec.get("phase").and_then(|x| x.as_u64()).unwrap_or(0) as usize;
        for allow in if no_intra { vec![false] } else { vec![true, false] } {
            let s = workload::make_spec(pool, ix, seed_for(base, stream, i), kind, allow);
            let mut specs: Vec<&RunSpec> = Vec::new();
            let mut cur = Some(&s);
            while let Some(sp) = cur {
                specs.push(sp);
                cur = sp.next.as_deref();
            }
            if k >= specs.len() || specs[k].policy.name() != pn {
                continue;
            }
            let mut phases: Vec<Case> = Vec::new();
            let before = rec.get("phases_before").and_then(|x| x.as_array()).cloned().unwrap_or_default();
            for j in 0..k {
                let b = before.get(j)?;
                let start = b.get("start").and_then(|x| x.as_u64()).unwrap_or(0) as u32;
                let sw = sim::switches_from_json(b.get("switches")?)?;
                phases.push(Case::from_spec(pool, specs[j], start, sw));
            }
            let start = rec.get("start")?.as_u64()? as u32;
            let sw = sim::switches_from_json(rec.get("switches")?)?;
            let mut last = Case::from_spec(pool, specs[k], start, sw);
            last.kill_step = 0;
            phases.push(last);
            return Some(Case::from_phases(&phases, k));
        }
        return None;
    }
    let mut spec: Option<RunSpec> = None;
    for allow in if no_intra { vec![false] } else { vec![true, false] } {
        let s = workload::make_spec(pool, ix, seed_for(base, stream, i), kind, allow);
        if s.policy.name() == pn {
            spec = Some(s);
            break;
        }
    }
    let spec = spec?;
    let start = rec.get("start")?.as_u64()? as u32;
    let sw = sim::switches_from_json(rec.get("switches")?)?;
    Some(Case::from_spec(pool, &spec, start, sw))
}

pub fn check(o: &CheckOpts) -> i32 {
    let t0 = Instant::now();
    let t = tier(&o.tier);
    let w = o.workers;
    println!("C16 check: tier={} VERIF_SEED={} workers={} repo={}", t.name, o.seed, w, o.repo);
    let audit = seam_audit(&o.repo);

    // ---- pool and oracle
    let hints = change_hints(&o.repo, &o.verif);
    let focus = if hints.files.is_empty() { None } else { Some(gen::PoolFocus { evs: hints.evs.clone(), tokens: hints.tokens.clone(), new_words: hints.new_words.clone(), new_examples: hints.new_examples.clone() }) };
    let cand = gen::build_pool(o.seed, &o.repo, &t.sizes, focus.as_ref());
    let (mut pool, ost): (Pool, OracleStats) = oracle::oracle_pass(cand, w, t.recheck_every);
    let mut ix = workload::index_pool(&mut pool);
    if !hints.files.is_empty() {
        ix.hint_evs = hints.evs.clone();
        for (bi, (ev, tok, _)) in ix.fn_buckets.iter().enumerate() {
            let ev_ok = hints.evs.is_empty() || hints.evs.iter().any(|e| *e as u8 == *ev);
            let tok_ok = hints.tokens.is_empty() || hints.tokens.iter().any(|t| t == tok);
            if ev_ok && tok_ok && !(hints.evs.is_empty() && hints.tokens.is_empty()) {
                ix.hint_buckets.push(bi);
            }
        }
        println!(
            "change focus: tree differs from {} in {:?}; evaluators {:?}, tokens {:?} -> {} of {} function buckets preferred",
            hints.base.chars().take(10).collect::<String>(), hints.files, hints.evs.iter().map(|e| e.name()).collect::<Vec<_>>(), hints.tokens, ix.hint_buckets.len(), ix.fn_buckets.len()
        );
        if !hints.new_words.is_empty() || !hints.new_examples.is_empty() {
            println!("  quoted by the added lines: words {:?}, examples {:?} -> {} pool entries", hints.new_words, hints.new_examples, ix.new_words.len());
        }
    }
    let ix = ix;
    println!(
        "pool: {} candidates -> {} kept (ok {}, err {}, panic {}); dropped: step_cap {}, signal {}, timeout {}, broken {}; placeholder-sensitive expressions {}; texts shared by evaluators {}",
        ost.candidates, ost.kept, ost.ok, ost.err, ost.panic, ost.dropped_stepcap, ost.dropped_signal, ost.dropped_timeout,
        ost.dropped_broken, ix.sensitive_exprs.len(), ix.cross_texts.len()
    );
    if pool.entries.len() < 50 || ost.dropped_broken > ost.candidates / 10 {
        eprintln!("HARNESS-ERROR: oracle pass produced too few usable calls ({} kept, {} broken)", pool.entries.len(), ost.dropped_broken);
        return 2;
    }
    let mut oc = OracleCache::new(w);
    oc.seed_from_pool(&pool);
    let known = known_findings(&o.verif);
    let mut findings: Vec<Finding> = Vec::new();
    let mut raw_violations = 0usize;

    // isolated nondeterminism: two isolated evaluations of the same call differ
    for (k, (call, a, b)) in ost.isolated_nondeterminism.iter().enumerate().take(3) {
        raw_violations += 1;
        let case = Case { threads: vec![vec![call.clone()]], churn: vec![vec![]], start: 0, switches: vec![], jumps: vec![vec![]], depths: vec![vec![]], cpus: vec![0], entropy: 0, kill_step: 0, io_fault: 0, power: 0, prefix: Vec::new(), next: None };
        let rr = RunResult {
            status: "violation".into(),
            rec: json!({"violation": {"kind": "isolated_nondeterminism", "call": call.to_json(), "expected": a, "observed": b, "client": 0, "call_no": 0}}),
        };
        let class = (call.ev.name().to_string(), "isolated_nondeterminism".to_string());
        let kn = match_known(&known, &class, &case);
        let path = write_replay_file(&o.verif, &format!("{}-iso{}", o.seed, k), o.seed, t.name, &json!({"phase": "oracle"}), &case, &rr, "n/a", None);
        findings.push(Finding { file: path, class, case, known: kn, confidence: "n/a".into() });
    }

    // ambient perturbation: same calls, exec'd process (new ASLR layout, pid, time), scrambled environment, other cwd
    let amb = oracle::ambient_recheck(&pool, if t.name == "thorough" { 4 } else if t.name == "ovf" { 0 } else { 12 }, &format!("{}/.work", o.verif), w, o.seed);
    if amb.ran {
        println!("ambient recheck: {} calls re-evaluated in an exec'd process with scrambled environment, {} compared, {} differ", amb.calls, amb.compared, amb.mismatches.len());
    } else {
        println!("ambient recheck: not run ({})", amb.reason);
    }
    for (k, (call, a, b)) in amb.mismatches.iter().enumerate().take(2) {
        raw_violations += 1;
        let case = Case { threads: vec![vec![call.clone()]], churn: vec![vec![]], start: 0, switches: vec![], jumps: vec![vec![]], depths: vec![vec![]], cpus: vec![0], entropy: 0, kill_step: 0, io_fault: 0, power: 0, prefix: Vec::new(), next: None };
        let rr = RunResult {
            status: "violation".into(),
            rec: json!({"violation": {"kind": "isolated_nondeterminism", "detail": "differs between a forked child of the driver and a freshly exec'd process with another environment / address-space layout", "call": call.to_json(), "expected": a, "observed": b, "client": 0, "call_no": 0}}),
        };
        let class = (call.ev.name().to_string(), "isolated_nondeterminism".to_string());
        let kn = match_known(&known, &class, &case);
        let path = write_replay_file(&o.verif, &format!("{}-ambient{}", o.seed, k), o.seed, t.name, &json!({"phase": "ambient_recheck"}), &case, &rr, "n/a", None);
        findings.push(Finding { file: path, class, case, known: kn, confidence: "n/a".into() });
    }

    // ---- determinism self-check (reported, never a verdict)
    let det_n = ((t.det_seeds as f64) * o.scale).max(20.0) as usize;
    let det_tmo = Duration::from_millis(6000);
    let d16 = run_batch("det_w16", &pool, &ix, o.seed, 11, RunKind::Short, det_n, w, det_tmo, None, true, 0, 1000, false);
    let mut degraded = d16.degraded;
    let d4 = run_batch("det_w4", &pool, &ix, o.seed, 11, RunKind::Short, det_n, 4.min(w), det_tmo, None, true, 0, 1000, degraded);
    degraded |= d4.degraded;
    let d1n = (det_n / 8).max(10);
    let d1 = run_batch("det_w1", &pool, &ix, o.seed, 11, RunKind::Short, d1n, 1, det_tmo, None, true, 0, 1000, degraded);
    degraded |= d1.degraded;
    let mut det_mismatch = 0usize;
    let mut det_compared = 0usize;
    for (i, h) in d16.hashes.iter() {
        if degraded {
            break; // the batches did not run the same policies; nothing comparable
        }
        if let Some(h2) = d4.hashes.get(i) {
            det_compared += 1;
            if h != h2 {
                det_mismatch += 1;
            }
        }
        if let Some(h3) = d1.hashes.get(i) {
            det_compared += 1;
            if h != h3 {
                det_mismatch += 1;
            }
        }
    }
    println!("determinism self-check: {} seeds, {} comparisons across worker counts 16/4/1, {} mismatches", det_n, det_compared, det_mismatch);
    if det_mismatch > 0 {
        println!("WARNING: event logs differ between two executions of the same seed: replay confidence is reduced (see evidence.uncontrolled_sources)");
    }

    // ---- the search
    let mut batches: Vec<BatchStats> = Vec::new();
    let short_n = ((t.short_runs as f64) * o.scale) as usize;
    let deadline = Instant::now() + Duration::from_secs(((t.short_budget_s as f64) * o.scale.max(0.2)) as u64 + 1);
    let short = run_batch("short_swarm", &pool, &ix, o.seed, 1, RunKind::Short, short_n, w, Duration::from_millis(6000), Some(deadline), false, 4, 8, degraded);
    degraded |= short.degraded;
    let wide_n = ((t.wide_runs as f64) * o.scale) as usize;
    let wide = run_batch("wide_16_threads", &pool, &ix, o.seed, 2, RunKind::Wide, wide_n, w, Duration::from_millis(4000), Some(Instant::now() + Duration::from_secs(if t.name == "thorough" { 120 } else { 10 })), false, 1, 8, degraded);
    let long_calls = ((t.long_calls as f64) * o.scale.min(1.0)).max(200.0) as usize;
    let long = run_batch(
        "long_history",
        &pool,
        &ix,
        o.seed,
        3,
        RunKind::Long { calls: long_calls },
        t.long_runs,
        w,
        Duration::from_millis(5000 + (long_calls as u64) * 2),
        Some(Instant::now() + Duration::from_secs(if t.name == "thorough" { 240 } else { 15 })),
        false,
        0,
        4,
        false,
    );
    // ---- crowd: K callers parked mid-call at once (K around 2..32), further callers nested inside, random finishing order
    let crowd_n = ((if t.name == "thorough" { 30_000.0 } else { 2500.0 }) * o.scale) as usize;
    let crowd = run_batch("crowd_overflow", &pool, &ix, o.seed, 4, RunKind::Crowd, crowd_n, w, Duration::from_millis(6000), Some(Instant::now() + Duration::from_secs(if t.name == "thorough" { 150 } else { 12 })), false, 0, 4, false);
    // ---- restart: two or three process incarnations on one private disk (files are state between calls too)
    let restart_n = ((if t.name == "thorough" { 12000.0 } else { 1500.0 }) * o.scale) as usize;
    let restart = run_batch("restart_disk", &pool, &ix, o.seed, 5, RunKind::Restart, restart_n, w, Duration::from_secs(60), Some(Instant::now() + Duration::from_secs(if t.name == "thorough" { 180 } else { 12 })), false, 0, 4, false);
    // ---- stall-and-wrap: a caller parked mid-call while another makes 2^8 / 2^16 (+ d) distinct calls of the same
    //      evaluator, over a filler pool of trivially distinct formulas ("<i>+@")

    let stall_evs: Vec<Ev> = if !hints.evs.is_empty() { hints.evs.iter().copied().take(2).collect() } else { vec![ALL_EV[(o.seed % 5) as usize]] };
    let mut filler_pools: Vec<(Pool, PoolIndex)> = Vec::new();
    for ev in &stall_evs {
        let mut cand = Pool::default();
        let ph = match ev {
            Ev::F64 => Ph::F64(0.25f64.to_bits()),
            Ev::I64 => Ph::I64(3),
            Ev::Dec => Ph::Dec(rust_decimal::Decimal::new(25, 1).serialize()),
            Ev::Cx => Ph::Cx(1.5f64.to_bits(), (-2.5f64).to_bits()),
            Ev::Num => Ph::NumI(3),
        };
        for i in 0..(65536 + 200 + 64) {
            let id = cand.by_expr.len() as u32;
            cand.by_expr.push(vec![i as u32]);
            // short and long formulas alternate (state that only engages above a length threshold sees half of them:
            // consecutive powers of two as bases cover both); the last 64 are distinct failing calls
            let text = if i >= 65536 + 200 {
                format!("({}+@)*(1+0)+0*(2-{}", i, i)
            } else if i % 2 == 0 {
                format!("{}+@", i)
            } else {
                format!("({}+@)*(1+0)+0*(2-{})", i, i)
            };
            cand.by_text.entry(text.clone()).or_default().push(id);
            cand.entries.push(gen::Entry { call: Call { ev: *ev, expr: text, ph }, expr_id: id, origin: "filler", oracle: Outcome::Panic(String::new()), ticks: 0, trace: 0, sensitive: false, text_id: 0 });
        }

        let (mut fp, fst) = oracle::oracle_pass(cand, w, 0);

        if fst.kept == fst.candidates && fp.entries.iter().take(65536 + 200).all(|e| matches!(e.oracle, Outcome::Ok(_))) {
            let fix = workload::index_pool(&mut fp);

            oc.seed_from_pool(&fp);
            filler_pools.push((fp, fix));
        }
    }
    println!("stall-and-wrap filler pools: {} evaluators ready at {:.1}s", filler_pools.len(), t0.elapsed().as_secs_f64());
    let mut stall_batches: Vec<(BatchStats, usize, u64, RunKind)> = Vec::new();
    for (pi, (fp, fix)) in filler_pools.iter().enumerate() {
        // a generation counter, ticket or ring of 2^k entries wraps after 2^k (+ d) operations: every k from 8 to 16
        let names = ["stall_wrap_2^8", "stall_wrap_2^9", "stall_wrap_2^10", "stall_wrap_2^11", "stall_wrap_2^12", "stall_wrap_2^13", "stall_wrap_2^14", "stall_wrap_2^15", "stall_wrap_2^16"];
        for (ki, k) in (8u32..=16).enumerate() {
            let base = 1usize << k;
            let n_runs = match (t.name, k) {
                ("quick", 16) => 6,
                ("quick", 15) => 8,
                ("quick", 14) => 16,
                ("quick", _) => 32,
                (_, 8) => 256,
                (_, 16) => 48,
                _ => 64,
            };
            let stream = 40 + (ki as u64) * 4 + pi as u64;
            let budget = if t.name == "quick" { if k >= 15 { 12 } else { 6 } } else { 120 };
            let b = run_batch(names[ki], fp, fix, o.seed, stream, RunKind::StallWrap { base }, n_runs, w, Duration::from_secs(if k >= 14 { 90 } else { 30 }), Some(Instant::now() + Duration::from_secs(budget)), false, 0, 2, false);
            stall_batches.push((b, pi, stream, RunKind::StallWrap { base }));
        }
    }
    let mut all_batches: Vec<(BatchStats, u64, RunKind, Option<usize>)> = vec![
        (d16, 11u64, RunKind::Short, None),
        (short, 1, RunKind::Short, None),
        (wide, 2, RunKind::Wide, None),
        (long, 3, RunKind::Long { calls: long_calls }, None),
        (crowd, 4, RunKind::Crowd, None),
        (restart, 5, RunKind::Restart, None),
    ];
    for (b, pi, stream, kind) in stall_batches {
        all_batches.push((b, stream, kind, Some(pi)));
    }
    // the determinism batches are ordinary verdict-bearing runs too
    for (b, stream, kind, fpi) in all_batches {
        let (pool, ix): (&Pool, &PoolIndex) = match fpi {
            Some(i) => (&filler_pools[i].0, &filler_pools[i].1),
            None => (&pool, &ix),
        };
        // ---- violations of this batch: rebuild, minimise, write replay files
        let mut by_class: BTreeMap<(String, String), Vec<(usize, Case, RunResult)>> = BTreeMap::new();
        for (i, rec) in b.violations.iter() {
            raw_violations += 1;
            let rr = RunResult { status: "violation".into(), rec: rec.clone() };
            let class = rr.violation_class().unwrap_or(("?".into(), "?".into()));
            match case_of_violation(&pool, &ix, o.seed, stream, kind, *i, rec, false) {
                Some(case) => by_class.entry(class).or_default().push((*i, case, rr)),
                None => eprintln!("HARNESS-WARNING: could not rebuild violating run {} of batch {}", i, b.name),
            }
        }
        for (class, mut v) in by_class.into_iter().take(3) {
            v.sort_by_key(|(_, c, _)| c.size());
            let (i, case, rr) = v.remove(0);
            if findings.len() >= 4 {
                break;
            }
            println!(
                "violation in batch {} run {} (seed {}): {}/{} — minimising {} calls, {} threads, {} switches …",
                b.name, i, seed_for(o.seed, stream, i), class.0, class.1, case.total_calls(), case.threads.len(), case.switches.len()
            );
            let orig_policy = rr.rec.get("pn").cloned().unwrap_or(Value::Null);
            // a case of tens of thousands of calls costs seconds per candidate: do not spend the budget on it
            let budget = Duration::from_secs(if case.total_calls() > 20_000 { t.min_budget_s.min(15) } else { t.min_budget_s });
            let (mc, mr, ms) = if case.prefix.is_empty() && case.next.is_none() { minimise(case, rr, &mut oc, w, budget, 6000) } else { crate::minimise::minimise_chain(case, rr, &mut oc, w, budget, 6000) };
            // confirm: 5 fresh replays
            let reps: Vec<Case> = (0..5).map(|_| mc.clone()).collect();
            let rres = run_cases(&reps, &mut oc, w, case_timeout(&mc));
            // confidence = fresh replays that violate in the same class; whether the event log is bit-identical too is
            // reported separately (a tree whose work depends on e.g. RandomState gives different tick counts per process)
            let same = rres.iter().filter(|r| r.as_ref().map_or(false, |r| r.violation_class().as_ref() == Some(&class))).count();
            let stable = rres.iter().filter(|r| r.as_ref().map_or(false, |r| r.hash() == mr.hash())).count();
            let conf = if stable == same { format!("{}/5", same) } else { format!("{}/5 (event log identical in {}/5)", same, stable) };
            let origin = json!({"batch": b.name, "run_index": i, "run_seed": seed_for(o.seed, stream, i), "policy": orig_policy});
            let path = write_replay_file(&o.verif, &format!("{}-{}-{}", o.seed, b.name, i), o.seed, t.name, &origin, &mc, &mr, &conf, Some(&ms));
            println!(
                "  minimised to {} calls, {} threads, {} switches ({} candidates, {:.1}s); replay {} -> {}",
                mc.total_calls(), mc.threads.len(), mc.switches.len(), ms.candidates, ms.wall_s, conf, path
            );
            let kn = match_known(&known, &class, &mc);
            findings.push(Finding { file: path, class, case: mc, known: kn, confidence: conf });
        }
        batches.push(b);
    }
    batches.push(d4);
    batches.push(d1);

    // ---- totals
    let search: Vec<&BatchStats> = batches.iter().collect();
    let evaluations: u64 = search.iter().map(|b| b.completed).sum();
    let mut nontrivial: BTreeSet<u64> = BTreeSet::new();
    let mut f = [0u64; 10];
    let mut ps = [0u64; NSITES];
    let mut pairs: BTreeMap<(u8, u8), u64> = BTreeMap::new();
    let (mut calls, mut ticks, mut steps, mut switches, mut wd, mut sens, mut lost, mut inconc, mut crashed) = (0u64, 0u64, 0u64, 0u64, 0u64, 0u64, 0u64, 0u64, 0u64);
    for b in &search {
        // the det_w4 / det_w1 batches repeat det_w16's seeds: their schedules are the same ones, the set dedups them
        nontrivial.extend(b.sched_nontrivial.iter().copied());
        for k in 0..10 {
            f[k] += b.f[k];
        }
        for k in 0..NSITES {
            ps[k] += b.preempt_site[k];
        }
        for (k, v) in &b.pairs {
            *pairs.entry(*k).or_insert(0) += v;
        }
        calls += b.calls;
        ticks += b.ticks;
        steps += b.steps;
        switches += b.switches;
        wd += b.work_differs;
        sens += b.sens_calls;
        lost += b.lost_control;
        inconc += b.inconclusive;
        crashed += b.crashed;
    }
    let (filled, cells) = pairs_fill(&pairs);

    // samples
    let mut samples: Vec<Value> = Vec::new();
    for b in &batches {
        let (stream, kind) = match b.name.as_str() {
            "short_swarm" => (1u64, RunKind::Short),
            "wide_16_threads" => (2, RunKind::Wide),
            _ => continue,
        };
        for (i, rec) in b.traces.iter().take(3) {
            samples.push(sample_from_trace(&pool, &ix, o.seed, stream, kind, *i, rec));
        }
    }
    if samples.is_empty() {
        samples.push(json!({"note": "no traced run completed", "pool_example": pool.entries.first().map(|e| e.call.to_json())}));
    }

    // ---- supplementary Miri pass (last: it uses helper threads, and nothing forks after this point)
    // ---- second pass of the thorough tier: the same search by the overflow-checks build (debug arithmetic
    //      semantics: every wrap is a panic, so many more panicking histories)
    let mut ovf_summary = json!({"ran": false, "reason": "only run by the thorough tier"});
    let mut ovf_violations = 0;
    if let Some(bin) = &o.ovf_bin {
        let part = format!("{}/.work/C16.ovf.json", o.verif);
        let _ = std::fs::create_dir_all(format!("{}/.work", o.verif));
        let _ = std::fs::remove_file(&part);
        let st = std::process::Command::new(bin)
            .args(["check", "--tier", "ovf", "--seed", &o.seed.to_string(), "--verif", &o.verif, "--repo", &o.repo, "--evidence-out", &part, "--workers", &w.to_string()])
            .env("VERIF_NO_MIRI", "1")
            .stdin(std::process::Stdio::null())
            .status();
        let code = st.ok().and_then(|s| s.code()).unwrap_or(-1);
        match std::fs::read_to_string(&part).ok().and_then(|s| serde_json::from_str::<Value>(&s).ok()) {
            Some(v) => {
                ovf_summary = json!({
                    "ran": true, "exit_code": code, "overflow_checks": v["coverage"]["overflow_checks_build"],
                    "evaluations": v["coverage"]["evaluations"], "distinct_nontrivial": v["coverage"]["distinct_nontrivial"],
                    "violations": v["violations"], "fault_kinds_fired": v["coverage"]["fault_kinds_fired"],
                    "pool": {"kept": v["coverage"]["pool"]["kept"], "panic": v["coverage"]["pool"]["panic"], "err": v["coverage"]["pool"]["err"]},
                    "simulated_time": v["coverage"]["simulated_time"], "wall_s": v["wall_s"], "replay_files": v["coverage"]["replay_files"],
                });
                if code == 1 {
                    ovf_violations = v["violations"].as_i64().unwrap_or(1).max(1);
                }
            }
            None => {
                ovf_summary = json!({"ran": false, "reason": format!("the overflow-checks build produced no evidence (exit code {})", code)});
            }
        }
    }
    let mo = if std::env::var("VERIF_NO_MIRI").is_ok() || t.miri.seeds == 0 {
        None
    } else {
        let text = crate::miri::miri_calls(&pool, o.seed, t.miri.calls);
        let m = crate::miri::run_miri(&o.verif, &text, t.miri.threads, &format!("-Zmiri-many-seeds=0..{} -Zmiri-many-seeds-keep-going", t.miri.seeds), Duration::from_secs(t.miri.timeout_s));
        if m.ran {
            println!("miri pass: {} seeds x {} threads x {} calls, data race reported: {}, result mismatch: {}, other error: {} ({:.1}s)", m.seeds, m.threads, m.calls, m.data_race, m.mismatch, m.other_error, m.wall_s);
        } else {
            println!("miri pass: not run ({})", m.reason);
        }
        if m.other_error {
            println!("NOTE: Miri reported an error that is not a data race in string_calculator; it is not a C16 verdict:\n{}", m.excerpt);
        }
        if m.data_race || m.mismatch {
            raw_violations += 1;
            let kind = if m.data_race { "data_race" } else { "miri_result_mismatch" };
            let n0 = m.calls;
            let (calls_text, threads_min, failing_min, excerpt_min, tried) =
                crate::miri::minimise_miri(&o.verif, &m, Duration::from_secs(if t.name == "thorough" { 420 } else { 100 }));
            println!("  miri finding minimised from {} to {} calls on {} threads ({} candidates)", n0, calls_text.lines().count(), threads_min, tried);
            let seed0 = failing_min.first().copied().unwrap_or(0);
            let dir = format!("{}/replays", o.verif);
            let _ = std::fs::create_dir_all(&dir);
            let path = format!("{}/C16-{}-miri-{}.json", dir, o.seed, seed0);
            let v = json!({
                "property": "C16", "seed": o.seed, "tier": t.name,
                "miri": {"miri_seed": seed0, "failing_seeds": failing_min, "threads": threads_min, "calls_text": calls_text,
                         "flags": "-Zmiri-disable-isolation -Zmiri-deterministic-floats -Zmiri-preemption-rate=0.1 -Zmiri-seed=<miri_seed>"},
                "violation": {"kind": kind, "detail": excerpt_min},
                "format": "sc_sim replay v1 (miri): every thread evaluates the calls of calls_text (lines ev<TAB>placeholder<TAB>expr), thread t starting at offset t*n/threads; re-run under Miri with the given seed",
            });
            let _ = std::fs::write(&path, serde_json::to_string_pretty(&v).unwrap_or_default());
            let class = ("any".to_string(), kind.to_string());
            let case = Case { threads: vec![], churn: vec![], start: 0, switches: vec![], jumps: vec![], depths: vec![], cpus: vec![], entropy: 0, kill_step: 0, io_fault: 0, power: 0, prefix: Vec::new(), next: None };
            let kn = match_known(&known, &class, &case);
            findings.push(Finding { file: path, class, case, known: kn, confidence: format!("{} of {} Miri seeds fail", m.failing_seeds.len(), m.seeds) });
        }
        Some(m)
    };

    let wall = t0.elapsed().as_secs_f64();

    // ---- verdict
    let mut new_violations: i64 = ovf_violations;
    for fd in &findings {
        match &fd.known {
            Some(what) => println!("KNOWN-FINDING: property=C16 {} (replay={})", what, fd.file),
            None => {
                new_violations += 1;
                println!("VIOLATION property=C16 replay={}", fd.file);
                println!("  class: evaluator={} kind={}; {} calls on {} threads; replay confidence {}", fd.class.0, fd.class.1, fd.case.total_calls(), fd.case.threads.len(), fd.confidence);
            }
        }
    }

    let mut fired = Map::new();
    for k in 0..10 {
        fired.insert(FAULT_NAMES[k].to_string(), json!(f[k]));
    }
    // F11: faults of the disk seam (fired = actually injected into a library file operation; on a tree whose library
    // touches no file there is nothing to inject into, and the count says so)
    fired.insert("F11_io_errors_and_short_transfers_injected".to_string(), json!(batches.iter().map(|b| b.io_injected.iter().sum::<u64>()).sum::<u64>()));
    fired.insert("F11_process_incarnations_with_an_io_fault_plan".to_string(), json!(batches.iter().map(|b| b.io_plans).sum::<u64>()));
    fired.insert("F11_power_losses_between_incarnations".to_string(), json!(batches.iter().map(|b| b.power_losses).sum::<u64>()));
    let mut pair_list: Vec<Value> = Vec::new();
    for ((a, b), n) in &pairs {
        pair_list.push(json!([SITE_NAMES[*a as usize], SITE_NAMES[*b as usize], n]));
    }
    let origin_counts: BTreeMap<String, usize> = pool.entries.iter().fold(BTreeMap::new(), |mut m, e| {
        *m.entry(e.origin.to_string()).or_insert(0) += 1;
        m
    });
    let per_ev: BTreeMap<String, usize> = pool.entries.iter().fold(BTreeMap::new(), |mut m, e| {
        *m.entry(e.call.ev.name().to_string()).or_insert(0) += 1;
        m
    });
    let ev = json!({
        "property_id": "C16",
        "tier": if t.name == "ovf" { "thorough" } else { t.name },
        "seed": o.seed,
        "level": "exploration",
        "wall_s": (wall * 100.0).round() / 100.0,
        "violations": new_violations,
        "coverage": {
            "evaluations": evaluations,
            "distinct_nontrivial": nontrivial.len(),
            "rule": "evaluations = simulated runs that ended with a verdict (each in its own freshly forked process: a seeded workload of 1-16 caller threads issuing eval_* calls under a seeded scheduler that owns every context switch; every call's outcome compared bit for bit with the same call's isolated first-time outcome). distinct_nontrivial = number of DISTINCT schedule hashes (hash over every context switch: from-thread, to-thread, site, call number, tick) among runs that had at least one pre-emption INSIDE a call (at a source tick, a basic-block edge, a memory access of the library crates, or an intercepted futex wait) so that two calls overlapped; measured by collecting the hashes in a set. Runs at call granularity only (serial, call_atomic, long-history) are evaluations but are not counted as non-trivial.",
            "samples": samples,
            "simulated_time": {"calls": calls, "ticks": ticks, "decision_points": steps, "context_switches": switches},
            "runs_per_hour": if wall > 0.0 { (evaluations as f64 / wall * 3600.0).round() } else { 0.0 },
            "seeds_per_hour": if wall > 0.0 { (evaluations as f64 / wall * 3600.0).round() } else { 0.0 },
            "fault_kinds_fired": fired,
            "preemptions_per_site": site_map(&ps),
            "site_pair_overlap": {"cells_filled": filled, "cells": cells, "fill_ratio": (filled as f64 / cells as f64 * 1000.0).round() / 1000.0, "pairs_from_to_count": pair_list},
            "batches": batches.iter().map(batch_json).collect::<Vec<_>>(),
            "pool": {
                "candidates": ost.candidates, "kept": ost.kept, "ok": ost.ok, "err": ost.err, "panic": ost.panic,
                "dropped_step_cap": ost.dropped_stepcap, "dropped_signal": ost.dropped_signal, "dropped_timeout": ost.dropped_timeout,
                "dropped_broken": ost.dropped_broken, "dropped_examples": ost.dropped_examples,
                "isolated_twice": ost.rechecked, "isolated_nondeterminism": ost.isolated_nondeterminism.len(),
                "placeholder_sensitive_expressions": ix.sensitive_exprs.len(), "texts_shared_by_evaluators": ix.cross_texts.len(),
                "by_origin": origin_counts, "by_evaluator": per_ev,
            },
            "probes": {
                "virtual_clock_reads_by_the_library": batches.iter().map(|b| b.clock_reads).sum::<u64>(),
                "futex_waits_intercepted": batches.iter().map(|b| b.futex_waits).sum::<u64>(),
                "library_threads_adopted": batches.iter().map(|b| b.lib_threads).sum::<u64>(),
                "timed_waits_ended_by_the_scheduler": batches.iter().map(|b| b.timeouts).sum::<u64>(),
                "sleeps_intercepted": batches.iter().map(|b| b.sleeps).sum::<u64>(),
                "yields_intercepted": batches.iter().map(|b| b.yields).sum::<u64>(),
                "wakeups_from_outside_the_simulator": batches.iter().map(|b| b.rescued).sum::<u64>(),
                "library_file_operations_redirected_to_the_private_disk": batches.iter().map(|b| b.file_ops).sum::<u64>(),
                "process_incarnations_in_restart_runs": batches.iter().map(|b| b.phases).sum::<u64>(),
                "processes_killed_mid_run": batches.iter().map(|b| b.kills).sum::<u64>(),
                "process_incarnations_with_an_io_fault_plan": batches.iter().map(|b| b.io_plans).sum::<u64>(),
                "io_faults_injected": batches.iter().map(|b| b.io_injected.iter().sum::<u64>()).sum::<u64>(),
                "power_losses_between_incarnations": batches.iter().map(|b| b.power_losses).sum::<u64>(),
                "private_disk_per_item": crate::disk::probe(),
                "shared_access_hits": batches.iter().map(|b| b.shared_hits).sum::<u64>(),
                "block_ticks": batches.iter().map(|b| b.block_ticks).sum::<u64>(),
                "work_differs_calls": wd,
                "placeholder_sensitive_calls_executed": sens,
                "placeholder_sensitive_share": if calls > 0 { (sens as f64 / calls as f64 * 1000.0).round() / 1000.0 } else { 0.0 },
            },
            "no_verdict_runs": {"inconclusive_step_cap_or_deadlock": inconc, "lost_control": lost, "crashed": crashed, "degraded": degraded},
            "determinism_selfcheck": {"seeds": det_n, "comparisons": det_compared, "mismatches": det_mismatch, "worker_counts": [w, 4.min(w), 1]},
            "uncontrolled_sources": audit,
            "ambient_recheck": {"ran": amb.ran, "reason": amb.reason, "calls": amb.calls, "compared": amb.compared, "mismatches": amb.mismatches.len(),
                                "perturbed": ["address-space layout (fresh exec, ASLR)", "pid", "wall-clock time", "environment variables (cleared and scrambled: TZ, LANG, LC_ALL, HOME, PATH, TMPDIR, RUST_BACKTRACE, RUST_MIN_STACK)", "working directory"]},
            "change_focus": {"base": hints.base, "files_differing": hints.files, "evaluators": hints.evs.iter().map(|e| e.name()).collect::<Vec<_>>(), "tokens": hints.tokens, "new_words_quoted_by_added_lines": hints.new_words, "example_expressions_quoted_by_added_lines": hints.new_examples,
                             "function_buckets": ix.fn_buckets.len(), "preferred_buckets": ix.hint_buckets.len(),
                             "note": "direction only: 70% of the function-themed runs (40% of short/wide runs are themed) draw their theme from the preferred buckets; on an unchanged tree there is no diff and no direction"},
            "granularity": if crate::tick::bb_guards() > 0 { format!("basic_block ({} instrumented block edges in the library crates) + source ticks", crate::tick::bb_guards()) } else { "source ticks only (block instrumentation not available)".to_string() },
            "overflow_checks_build": overflow_checks_on(),
            "second_pass_overflow_checks_build": ovf_summary,
            "raw_violating_runs": raw_violations,
            "miri_pass": mo.as_ref().map(|m| m.to_json()).unwrap_or(json!({"ran": false, "reason": "disabled by VERIF_NO_MIRI"})),
            "replay_files": findings.iter().map(|f| json!({"file": f.file, "evaluator": f.class.0, "kind": f.class.1, "known": f.known, "replay_confidence": f.confidence})).collect::<Vec<_>>(),
            "components": {
                "real": ["string_calculator (all five eval_* stacks and utils, built from /repo's working tree with feature verif_hooks; compiler-inserted SanitizerCoverage callbacks add calls only)", "rust_decimal", "num-complex", "num-traits", "arrayvec", "std threads / TLS / statics / allocator of the real process"],
                "stubbed": [],
                "simulated": ["caller threads' scheduling (baton; every switch chosen by the run's PRNG or a recorded switch list)", "call histories", "thread lifecycle (spawn / retire / respawn, exits serialised)", "blocking on library locks (futex waits inside calls become scheduling decisions)", "threads the library creates itself (pthread_create inside a call: adopted by the scheduler, up to 24 per run; beyond that, and in the isolated oracle evaluations, they run free)", "sleeps, timed waits and yields inside the library (virtual time; the scheduler decides when a timer fires)", "entropy (getrandom: seeded per run on the threads of a simulated run, the kernel's elsewhere)", "wall and monotonic clocks inside calls (virtual time with injected jumps)", "the caller's stack depth", "ambient inputs of the oracle (environment, address-space layout, cwd) in the recheck"],
            },
        },
        "assumptions": [
            "interleavings are explored at the granularity reported in coverage.granularity (basic-block edges and every load / store of the instrumented library crates, plus the verif_hooks sites) under sequential consistency; code of std and libc between two such points is atomic to the simulator, and weaker-than-SC behaviours are only sampled by the Miri pass",
            "the oracle is the library's own result for the same call in a fresh process that makes no other call",
            "a run that hits the per-call step cap or blocks on a primitive the simulator cannot see yields no verdict (counted above), never an alarm",
            "sampling, not enumeration: a clean batch is evidence, not proof",
        ],
    });
    let evp = o.evidence_out.clone().unwrap_or_else(|| format!("{}/evidence/C16.json", o.verif));
    let _ = std::fs::create_dir_all(format!("{}/evidence", o.verif));
    if let Err(e) = std::fs::write(&evp, serde_json::to_string_pretty(&ev).unwrap_or_default()) {
        eprintln!("HARNESS-ERROR: cannot write {}: {}", evp, e);
        return 2;
    }
    println!(
        "C16: {} runs with verdict ({} distinct schedules with intra-call pre-emption), {} calls, {} ticks, {} switches; no-verdict: {} inconclusive (step cap / deadlock), {} lost-control, {} crashed; site-pair fill {}/{}; wall {:.1}s",
        evaluations, nontrivial.len(), calls, ticks, switches, inconc, lost, crashed, filled, cells, wall
    );
    println!("fault kinds fired: {}", (0..10).map(|k| format!("{}={}", FAULT_NAMES[k], f[k])).collect::<Vec<_>>().join(" "));
    {
        let lt: u64 = batches.iter().map(|b| b.lib_threads).sum();
        let (tm, sl, yl, rs): (u64, u64, u64, u64) = batches.iter().fold((0, 0, 0, 0), |a, b| (a.0 + b.timeouts, a.1 + b.sleeps, a.2 + b.yields, a.3 + b.rescued));
        if lt + tm + sl + yl + rs > 0 {
            println!("threads and timers of the library itself: {} threads adopted by the scheduler, {} sleeps and {} yields turned into decision points, {} timed waits ended by the scheduler, {} wake-ups from outside the simulator", lt, sl, yl, tm, rs);
        }
        let fo: u64 = batches.iter().map(|b| b.file_ops).sum();
        if fo > 0 {
            println!("files of the library itself: {} path operations redirected to the runs' private disks; {} process incarnations in restart runs, {} of them killed mid-run", fo, batches.iter().map(|b| b.phases).sum::<u64>(), batches.iter().map(|b| b.kills).sum::<u64>());
            let mut inj = [0u64; 8];
            for b in batches.iter() {
                for k in 0..8 {
                    inj[k] += b.io_injected[k];
                }
            }
            println!("  injected I/O faults: {}; {} power losses between incarnations, {} files lost unsynced data", crate::disk::IO_KINDS.iter().zip(inj.iter()).map(|(k, v)| format!("{} {}", k, v)).collect::<Vec<_>>().join(", "), batches.iter().map(|b| b.power_losses).sum::<u64>(), batches.iter().map(|b| b.power_loss_files).sum::<u64>());
        }
    }
    if evaluations == 0 {
        eprintln!("HARNESS-ERROR: no run reached a verdict");
        return 2;
    }
    if new_violations > 0 {
        1
    } else {
        println!("C16: held on everything explored");
        0
    }
}

// ---------------------------------------------------------------------------

pub fn replay(path: &str, workers: usize) -> i32 {
    let s = match std::fs::read_to_string(path) {
        Ok(s) => s,
        Err(e) => {
            eprintln!("HARNESS-ERROR: cannot read {}: {}", path, e);
            return 2;
        }
    };
    let v: Value = match serde_json::from_str(&s) {
        Ok(v) => v,
        Err(e) => {
            eprintln!("HARNESS-ERROR: {} is not JSON: {}", path, e);
            return 2;
        }
    };
    if let Some(m) = v.get("miri") {
        let seed = m.get("miri_seed").and_then(|x| x.as_u64()).unwrap_or(0);
        let threads = m.get("threads").and_then(|x| x.as_u64()).unwrap_or(3) as usize;
        let text = m.get("calls_text").and_then(|x| x.as_str()).unwrap_or("");
        let verif = std::path::Path::new(path).parent().and_then(|p| p.parent()).map(|p| p.display().to_string()).unwrap_or_else(|| "/verif".into());
        let verif = if std::path::Path::new(&format!("{}/miri_scn/Cargo.toml", verif)).exists() { verif } else { "/verif".to_string() };
        let mo = crate::miri::run_miri(&verif, text, threads, &format!("-Zmiri-seed={}", seed), Duration::from_secs(600));
        println!("miri replay with seed {}: ran={} data_race={} result_mismatch={} {}", seed, mo.ran, mo.data_race, mo.mismatch, mo.reason);
        if mo.data_race || mo.mismatch {
            println!("{}", mo.excerpt);
            println!("VIOLATION property=C16 replay={}", path);
            return 1;
        }
        println!("not reproduced");
        return 0;
    }
    let case = match Case::from_json(&v) {
        Some(c) => c,
        None => {
            eprintln!("HARNESS-ERROR: {} is not a replay file", path);
            return 2;
        }
    };
    let kind = v.get("violation").and_then(|x| x.get("kind")).and_then(|x| x.as_str()).unwrap_or("");
    println!("replaying {}: {} calls on {} threads, {} switches", path, case.total_calls(), case.threads.len(), case.switches.len());
    if kind == "isolated_nondeterminism" {
        let call = case.threads[0][0].clone();
        let calls: Vec<Call> = (0..8).map(|_| call.clone()).collect();
        let res = oracle::isolated_many(&calls, workers, Duration::from_secs(4));
        let outs: BTreeSet<String> = res
            .iter()
            .filter_map(|r| if let oracle::Iso::Done { outcome, .. } = r { Some(outcome.encode()) } else { None })
            .collect();
        let mut outs = outs;
        // and once more in an exec'd process with another environment / address-space layout
        let verif = std::path::Path::new(path).parent().and_then(|p| p.parent()).map(|p| p.display().to_string()).unwrap_or_else(|| "/verif".into());
        if let Ok(lines) = oracle::ambient_eval(&[call.clone()], &format!("{}/.work", verif), workers, 1) {
            for l in lines {
                if !l.starts_with("novalue") {
                    outs.insert(l.replace("\\n", "\n"));
                }
            }
        }
        println!("8 isolated evaluations + 1 in an exec'd process with scrambled environment gave {} distinct outcome(s): {:?}", outs.len(), outs);
        if outs.len() > 1 {
            println!("VIOLATION property=C16 replay={}", path);
            return 1;
        }
        println!("not reproduced");
        return 0;
    }
    let mut oc = OracleCache::new(workers);
    let reps: Vec<Case> = (0..5).map(|_| case.clone()).collect();
    let res = run_cases(&reps, &mut oc, workers, case_timeout(&case));
    let mut viol = 0;
    let mut hashes: BTreeSet<String> = BTreeSet::new();
    for r in res.iter() {
        match r {
            Some(r) => {
                hashes.insert(r.hash());
                if r.status == "violation" {
                    viol += 1;
                    if viol == 1 {
                        println!("violation: {}", r.rec.get("violation").cloned().unwrap_or(Value::Null));
                    }
                } else if viol == 0 {
                    println!("run status: {}", r.status);
                }
            }
            None => println!("a call of the replay file does not return in isolation; cannot replay"),
        }
    }
    let want = v.get("event_log_hash").and_then(|x| x.as_str()).unwrap_or("");
    println!("5 fresh replays: {} violate; event-log hashes {:?} (recorded {})", viol, hashes, want);
    if viol > 0 {
        println!("VIOLATION property=C16 replay={}", path);
        1
    } else {
        println!("not reproduced");
        0
    }
}

// ---------------------------------------------------------------------------

/// Harness self-test (not a registered check): large determinism sample + record/replay equivalence.
pub fn selftest(o: &CheckOpts, seeds: usize) -> i32 {
    let t = tier("quick");
    let cand = gen::build_pool(o.seed, &o.repo, &t.sizes, None);
    let (mut pool, _ost) = oracle::oracle_pass(cand, o.workers, 0);
    let ix = workload::index_pool(&mut pool);
    let tmo = Duration::from_millis(3000);
    let mut bad = 0;
    for (stream, kind, n) in [(21u64, RunKind::Short, seeds), (22, RunKind::Wide, seeds / 10), (23, RunKind::Long { calls: 500 }, 32), (24, RunKind::Crowd, seeds / 10), (25, RunKind::Restart, seeds / 10)] {
        let a = run_batch("a", &pool, &ix, o.seed, stream, kind, n, o.workers, tmo, None, true, usize::MAX, u32::MAX, false);
        let b = run_batch("b", &pool, &ix, o.seed, stream, kind, n, 5, tmo, None, true, usize::MAX, u32::MAX, false);
        let c = run_batch("c", &pool, &ix, o.seed, stream, kind, n / 10, 1, tmo, None, true, 0, u32::MAX, false);
        let mut cmp = 0;
        let mut mism = 0;
        for (i, h) in a.hashes.iter() {
            for other in [&b, &c] {
                if let Some(h2) = other.hashes.get(i) {
                    cmp += 1;
                    if h != h2 {
                        mism += 1;
                        if mism <= 6 {
                            let pn = a.traces.iter().find(|(k, _)| k == i).and_then(|(_, r)| r.get("pn").cloned());
                            println!("  determinism mismatch: run {} policy {:?}", i, pn);
                            for bb in [&a, &b] {
                                if let Some((_, r)) = bb.traces.iter().find(|(k, _)| k == i) {
                                    println!("    sw={} shh={} fw={} ticks={} switches={}", r["sw"], r["shh"], r["fw"], r["ticks"], r["switches"].to_string().chars().take(400).collect::<String>());
                                }
                            }
                        }
                    }
                }
            }
        }
        println!("selftest {:?}: {} runs, {} comparisons, {} mismatches; lost {} crashed {} inconclusive {}", kind, a.completed, cmp, mism, a.lost_control, a.crashed, a.inconclusive);
        bad += mism;
        // record -> replay equivalence: replaying the recorded switch list reproduces the event log exactly
        let mut oc = OracleCache::new(o.workers);
        oc.seed_from_pool(&pool);
        let mut cases = Vec::new();
        let mut want = Vec::new();
        for (i, rec) in a.traces.iter().take(400) {
            let spec = workload::make_spec(&pool, &ix, seed_for(o.seed, stream, *i), kind, true);
            let start = rec.get("start").and_then(|x| x.as_u64()).unwrap_or(0) as u32;
            let sw = sim::switches_from_json(rec.get("switches").unwrap_or(&Value::Null)).unwrap_or_default();
            if spec.next.is_some() {
                // a chained run: every phase with the schedule it recorded
                let traces = rec.get("phase_traces").and_then(|x| x.as_array()).cloned().unwrap_or_default();
                let mut phases: Vec<Case> = Vec::new();
                let mut cur = Some(&spec);
                let mut j = 0;
                while let Some(sp) = cur {
                    let st = traces.get(j).and_then(|b| b.get("start")).and_then(|x| x.as_u64()).unwrap_or(0) as u32;
                    let sw = traces.get(j).and_then(|b| b.get("switches")).and_then(sim::switches_from_json).unwrap_or_default();
                    phases.push(Case::from_spec(&pool, sp, st, sw));
                    cur = sp.next.as_deref();
                    j += 1;
                }
                cases.push(Case::from_phases(&phases, 0));
            } else {
                cases.push(Case::from_spec(&pool, &spec, start, sw));
            }
            want.push(rec.get("h").and_then(|x| x.as_str()).unwrap_or("").to_string());
        }
        let res = run_cases(&cases, &mut oc, o.workers, Duration::from_secs(5));
        let mut rm = 0;
        for (k, r) in res.iter().enumerate() {
            let h = r.as_ref().map(|r| r.hash()).unwrap_or_default();
            if h != want[k] {
                rm += 1;
                if rm <= 6 {
                    if std::env::var("SC_DEBUG_DUMP").is_ok() {
                        let _ = std::fs::write(format!("/root/scratch/mismatch_{}.json", k), serde_json::to_string(&json!({"case": cases[k].to_json(), "rec": a.traces.get(k).map(|(_, r)| r.clone()), "replayed": r.as_ref().map(|r| r.rec.clone())})).unwrap_or_default());
                    }
                    println!("  replay mismatch: case {} want {} got {} status {:?} policy {:?}", k, want[k], h, r.as_ref().map(|r| r.status.clone()), a.traces.get(k).and_then(|(_, r)| r.get("pn").cloned()));
                }
            }
        }
        println!("selftest {:?}: record->replay on {} runs: {} mismatches", kind, cases.len(), rm);
        bad += rm;
    }
    if bad > 0 {
        println!("SELFTEST FAILED: {} mismatches", bad);
        2
    } else {
        println!("SELFTEST OK");
        0
    }
}

#[allow(dead_code)]
pub fn unused(_: Exit) {}

/// debugging aid: run one seed of the selftest's short stream `reps` times from this process and print the records
pub fn debug_seed(o: &CheckOpts, stream: u64, idx: usize, reps: usize, pad: usize) -> i32 {
    let t = tier("quick");
    let hints = change_hints(&o.repo, &o.verif);
    let focus = if hints.files.is_empty() { None } else { Some(gen::PoolFocus { evs: hints.evs.clone(), tokens: hints.tokens.clone(), new_words: hints.new_words.clone(), new_examples: hints.new_examples.clone() }) };
    let cand = gen::build_pool(o.seed, &o.repo, &t.sizes, focus.as_ref());
    let (mut pool, _ost) = oracle::oracle_pass(cand, o.workers, 0);
    let mut ix = workload::index_pool(&mut pool);
    if !hints.files.is_empty() {
        ix.hint_evs = hints.evs.clone();
        for (bi, (ev, tok, _)) in ix.fn_buckets.iter().enumerate() {
            let ev_ok = hints.evs.is_empty() || hints.evs.iter().any(|e| *e as u8 == *ev);
            let tok_ok = hints.tokens.is_empty() || hints.tokens.iter().any(|t| t == tok);
            if ev_ok && tok_ok && !(hints.evs.is_empty() && hints.tokens.is_empty()) {
                ix.hint_buckets.push(bi);
            }
        }
    }
    // vary the parent's allocation history
    let _padding: Vec<Vec<u8>> = (0..pad).map(|i| vec![0u8; 1000 + i * 37]).collect();
    let kind = match std::env::var("SC_DEBUG_KIND").as_deref() {
        Ok("long") => RunKind::Long { calls: 8000 },
        Ok("wide") => RunKind::Wide,
        Ok("crowd") => RunKind::Crowd,
        Ok("restart") => RunKind::Restart,
        _ => RunKind::Short,
    };
    if std::env::var("SC_DEBUG_BUCKETS").is_ok() {
        for b in &ix.hint_buckets {
            let (ev, tok, list) = &ix.fn_buckets[*b];
            println!("hint bucket ev={} tok={} entries={}", ev, tok, list.len());
            for e in list.iter().take(60) {
                let en = &pool.entries[*e as usize];
                println!("   {:?} {:?} ticks={} origin={}", en.call.expr, en.call.ph, en.ticks, en.origin);
            }
        }
    }
    let count: usize = std::env::var("SC_DEBUG_COUNT").ok().and_then(|s| s.parse().ok()).unwrap_or(1);
    for k in 0..reps * count {
        let idx = idx + k / reps;
        let mut spec = workload::make_spec(&pool, &ix, seed_for(o.seed, stream, idx), kind, true);
        println!("idx {} faults {:?} threads {} calls {}", idx, spec.faults_enabled, spec.clients.len(), spec.clients.iter().map(|c| c.len()).sum::<usize>());
        spec.want_trace = true;
        let mut got: Option<RunResult> = None;
        let tmo = std::env::var("SC_DEBUG_TIMEOUT_S").ok().and_then(|s| s.parse().ok()).unwrap_or(5u64);
        proc::zmap(1, 1, Duration::from_secs(tmo), None, &mut || true, &mut |_| Some(crate::wire::encode_run(&pool, &spec)), &mut |_, bytes, exit| got = Some(classify(&bytes, exit)));
        let r = got.unwrap_or(RunResult { status: "crashed".into(), rec: Value::Null });
        if r.status != "ok" {
            println!("rec: {}", r.rec.to_string().chars().take(600).collect::<String>());
        }
        println!("   fo={} phases={} kills={} calls={}", r.rec["fo"], r.rec["phases"], r.rec["kills"], r.rec["calls"]);
        println!("{} {} h={} sw={} shh={} fw={} ticks={} switches={}", spec.policy.name(), r.status, r.hash(), r.rec["sw"], r.rec["shh"], r.rec["fw"], r.rec["ticks"], r.rec["switches"].to_string().chars().take(300).collect::<String>());
    }
    0
}

/// debugging aid: the pool is exactly the calls of a file (JSON lines as in replay files); run `n` short runs
pub fn hunt(o: &CheckOpts, file: &str, n: usize) -> i32 {
    let text = std::fs::read_to_string(file).unwrap_or_default();
    let mut cand = Pool::default();
    for l in text.lines() {
        if let Some(c) = serde_json::from_str::<Value>(l).ok().and_then(|v| Call::from_json(&v)) {
            let id = match cand.by_expr.iter().position(|es| {
                let e = &cand.entries[es[0] as usize];
                e.call.ev == c.ev && e.call.expr == c.expr
            }) {
                Some(i) => i,
                None => {
                    cand.by_expr.push(Vec::new());
                    cand.by_expr.len() - 1
                }
            };
            cand.by_expr[id].push(cand.entries.len() as u32);
            cand.by_text.entry(c.expr.clone()).or_default().push(id as u32);
            cand.entries.push(gen::Entry { call: c, expr_id: id as u32, origin: "file", oracle: Outcome::Panic(String::new()), ticks: 0, trace: 0, sensitive: false, text_id: 0 });
        }
    }
    let (mut pool, ost) = oracle::oracle_pass(cand, o.workers, 0);
    let ix = workload::index_pool(&mut pool);
    println!("hunt: {} calls kept of {}", ost.kept, ost.candidates);
    let hk = match std::env::var("SC_DEBUG_KIND").as_deref() {
        Ok("restart") => RunKind::Restart,
        Ok("crowd") => RunKind::Crowd,
        Ok("wide") => RunKind::Wide,
        _ => RunKind::Short,
    };
    let b = run_batch("hunt", &pool, &ix, o.seed, 31, hk, n, o.workers, Duration::from_millis(if hk == RunKind::Short { 1500 } else { 60_000 }), None, false, 0, 3, false);
    println!("{}", batch_json(&b));
    for (i, rec) in b.violations.iter().take(3) {
        println!("violation in run {}: policy {} {}", i, rec["pn"], rec["violation"]);
        println!("  switches {}", rec["switches"]);
    }
    if b.violations.is_empty() { 0 } else { 1 }
}
