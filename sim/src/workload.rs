//! Per-run workload: which clients issue which calls, which fault kinds are enabled, which policy.
//! A pure function of (pool, run seed, run kind).

use crate::gen::Pool;
use crate::sim::{Policy, RunSpec};
use crate::tick::{bb_guards, SITE_COUNT};
use crate::types::*;

#[derive(Clone, Debug, Default)]
pub struct PoolIndex {
    pub ok: Vec<u32>,
    pub err: Vec<u32>,
    pub panic: Vec<u32>,
    /// expression ids with at least two entries whose isolated outcomes differ (the result depends on `@`)
    pub sensitive_exprs: Vec<u32>,
    /// texts evaluated by at least two evaluators: lists of expr ids
    pub cross_texts: Vec<Vec<u32>>,
    /// per entry: is the expression placeholder-sensitive
    pub entry_sensitive: Vec<bool>,
    /// failing entries grouped by kind of failure (evaluator, Err variant / panic, message prefix): picking a kind
    /// first and an entry second keeps rare failure kinds from drowning among the common ones
    pub err_kinds: Vec<Vec<u32>>,
    pub panic_kinds: Vec<Vec<u32>>,
    /// Ok entries per evaluator
    pub ok_by_ev: Vec<Vec<u32>>,
    /// failing entries per evaluator
    pub err_by_ev: Vec<Vec<u32>>,
    pub panic_by_ev: Vec<Vec<u32>>,
    /// (evaluator, token) -> non-panicking entries whose text uses that function / operator: a run can
    /// concentrate on one of them, so that concurrent calls exercise the same code with different arguments
    pub fn_buckets: Vec<(u8, String, Vec<u32>)>,
    /// per function bucket: the entries using that function on which the library panics (a themed run mixes some in:
    /// one call of a function panicking while another call of the same function is in flight)
    pub fn_bucket_panics: Vec<Vec<u32>>,
    /// indices into fn_buckets that the change under test touches (from `git diff` against the hook commit)
    pub hint_buckets: Vec<usize>,
    /// evaluators the change under test touches
    pub hint_evs: Vec<Ev>,
    /// placeholder-sensitive expressions generated for the change under test (origin change_focus)
    pub focus_exprs: Vec<u32>,
    /// expressions of origin value_relatives: their entries are one base placeholder and its representation relatives
    pub rel_exprs: Vec<u32>,
    /// expressions of origin arg_lattice (one formula, 256 evenly spaced placeholders), per evaluator
    pub lattice_exprs: Vec<Vec<u32>>,
    /// entries of origin new_words (built around words that only the added lines of the change quote)
    pub new_words: Vec<u32>,
}

pub const FN_TOKENS: [&str; 64] = [
    "abs(", "sqrt(", "exp(", "exp2(", "ln(", "lb(", "pow(", "root(", "log(", "sgn(", "sign(", "signum(", "trunc(", "truncate(",
    "floor(", "ceil(", "round(", "w(", "lambert_w(", "sin(", "asin(", "cos(", "acos(", "tan(", "atan(", "sinh(", "asinh(", "arsinh(",
    "cosh(", "acosh(", "arcosh(", "tanh(", "atanh(", "artanh(", "mod(", "atan2(", "ilog(", "min(", "max(", "avg(", "med(", "median(",
    "gcd(", "lcm(", "!", "%", "^", "°", "rad", "⌊", "⌈", "π", "pi", "<<", ">>", "&", "|", "SUPERSCRIPT", "@", "/", "*", "-", "+", "LITERAL.",
];

fn uses_token(text: &str, tok: &str) -> bool {
    match tok {
        "SUPERSCRIPT" => text.chars().any(|c| "⁰¹²³⁴⁵⁶⁷⁸⁹".contains(c)),
        "LITERAL." => text.contains('.'),
        _ => {
            if !tok.ends_with('(') {
                return text.contains(tok);
            }
            // a function name: must not be the tail of a longer name (log( vs ilog(, sin( vs asin()
            let mut from = 0;
            while let Some(i) = text[from..].find(tok) {
                let at = from + i;
                let prev = text[..at].chars().last();
                if !prev.map_or(false, |c| c.is_ascii_alphabetic() || c == '_' || c.is_ascii_digit() && false) {
                    return true;
                }
                from = at + tok.len();
            }
            false
        }
    }
}

pub fn index_pool(pool: &mut Pool) -> PoolIndex {
    let mut ix = PoolIndex::default();
    ix.entry_sensitive = vec![false; pool.entries.len()];
    for (i, e) in pool.entries.iter().enumerate() {
        match e.oracle {
            Outcome::Ok(_) => ix.ok.push(i as u32),
            Outcome::Err(..) => ix.err.push(i as u32),
            Outcome::Panic(_) => ix.panic.push(i as u32),
        }
    }
    {
        use std::collections::BTreeMap;
        let mut ek: BTreeMap<(u8, String), Vec<u32>> = BTreeMap::new();
        let mut pk: BTreeMap<(u8, String), Vec<u32>> = BTreeMap::new();
        ix.ok_by_ev = vec![Vec::new(); 5];
        ix.err_by_ev = vec![Vec::new(); 5];
        ix.panic_by_ev = vec![Vec::new(); 5];
        for (i, e) in pool.entries.iter().enumerate() {
            let key = |m: &str| -> String { m.chars().filter(|c| !c.is_ascii_digit()).take(28).collect() };
            match &e.oracle {
                Outcome::Ok(_) => ix.ok_by_ev[e.call.ev as usize].push(i as u32),
                Outcome::Err(v, m) => {
                    ix.err_by_ev[e.call.ev as usize].push(i as u32);
                    ek.entry((e.call.ev as u8, format!("{} {}", v, key(m)))).or_default().push(i as u32)
                }
                Outcome::Panic(m) => {
                    ix.panic_by_ev[e.call.ev as usize].push(i as u32);
                    pk.entry((e.call.ev as u8, key(m))).or_default().push(i as u32)
                }
            }
        }
        ix.err_kinds = ek.into_values().collect();
        ix.panic_kinds = pk.into_values().collect();
    }
    {
        use std::collections::BTreeMap;
        let mut fb: BTreeMap<(u8, usize), Vec<u32>> = BTreeMap::new();
        let mut fbp: BTreeMap<(u8, usize), Vec<u32>> = BTreeMap::new();
        for (i, e) in pool.entries.iter().enumerate() {
            if e.ticks > 600_000 {
                continue;
            }
            let panics = matches!(e.oracle, Outcome::Panic(_));
            let stripped: String = e.call.expr.split_whitespace().collect();
            for (t, tok) in FN_TOKENS.iter().enumerate() {
                if uses_token(&stripped, tok) {
                    if panics {
                        fbp.entry((e.call.ev as u8, t)).or_default().push(i as u32);
                    } else {
                        fb.entry((e.call.ev as u8, t)).or_default().push(i as u32);
                    }
                }
            }
        }
        for ((ev, t), v) in fb {
            if v.len() >= 2 {
                ix.fn_buckets.push((ev, FN_TOKENS[t].to_string(), v));
                ix.fn_bucket_panics.push(fbp.remove(&(ev, t)).unwrap_or_default());
            }
        }
    }
    for (id, es) in pool.by_expr.iter().enumerate() {
        if es.len() >= 2 && pool.entries[es[0] as usize].origin == "value_relatives" {
            ix.rel_exprs.push(id as u32);
        }
        if es.len() >= 2 && pool.entries[es[0] as usize].origin == "arg_lattice" {
            if ix.lattice_exprs.is_empty() {
                ix.lattice_exprs = vec![Vec::new(); 5];
            }
            ix.lattice_exprs[pool.entries[es[0] as usize].call.ev as usize].push(id as u32);
        }
        if es.len() >= 2 {
            let first = &pool.entries[es[0] as usize].oracle;
            let any_panic = es.iter().any(|x| matches!(pool.entries[*x as usize].oracle, Outcome::Panic(_)));
            if !any_panic && es.iter().any(|x| &pool.entries[*x as usize].oracle != first) {
                ix.sensitive_exprs.push(id as u32);
                if pool.entries[es[0] as usize].origin == "change_focus" {
                    ix.focus_exprs.push(id as u32);
                }
                for x in es {
                    ix.entry_sensitive[*x as usize] = true;
                }
            }
        }
    }
    for (i, e) in pool.entries.iter().enumerate() {
        if e.origin == "new_words" {
            ix.new_words.push(i as u32);
        }
    }
    for (i, s) in ix.entry_sensitive.iter().enumerate() {
        pool.entries[i].sensitive = *s;
    }
    for (_t, ids) in pool.by_text.iter() {
        if ids.len() >= 2 {
            ix.cross_texts.push(ids.clone());
        }
    }
    ix
}

#[derive(Clone, Copy, Debug, PartialEq)]
pub enum RunKind {
    /// 1-4 clients, few calls: the bulk of the search
    Short,
    /// 16 clients (the property's "16 threads")
    Wide,
    /// one process, thousands of calls, call granularity
    Long { calls: usize },
    /// "stall and wrap": one caller is parked in the middle of a call while another performs 2^k + d distinct calls
    /// of the same evaluator (a generation counter, ticket or epoch wraps), the parked call then finishes, and the
    /// busy caller repeats its most recent calls. The pool is a filler pool: entry i is the i-th distinct call.
    StallWrap { base: usize },
    /// "crowd": K callers (K around 2, 4, 8, 16, 32) are parked in the middle of a call, one after the other, each
    /// after a warm-up call of its own formula; while all of them are in flight further callers make complete calls;
    /// the parked calls then finish in a random order and everybody repeats its formula. Fixed-size tables of
    /// per-call resources (slots, leases, permits) overflow when more calls are in flight than they have entries.
    Crowd,
    /// "restart": two or three process incarnations one after the other on the same private disk. The first works
    /// through a set of a few hundred calls of one evaluator on several threads (and may be killed in the middle);
    /// the later ones - fresh memory, the files the earlier ones left - evaluate the same calls again. State the
    /// library keeps in files is state between calls too.
    Restart,
}

/// the stall-and-wrap run over a filler pool (the leading Ok entries are distinct calls of one evaluator, short and
/// long formulas alternating; the trailing entries are distinct failing calls)
fn stall_wrap_spec(pool: &Pool, seed: u64, base: usize) -> RunSpec {
    let mut r = Rng::new(mix(seed, 0x7374_616c));
    let n_ok = pool.entries.iter().take_while(|e| matches!(e.oracle, Outcome::Ok(_))).count().max(4);
    let n_fail = pool.entries.len() - n_ok;
    // which fillers: all (short and long alternate), only the short ones, only the long ones - state that engages
    // above (or below) a length threshold counts only one kind
    let mode = if base * 2 + 200 > n_ok { 0 } else { r.below(3) };
    let idx = |j: usize| -> u32 {
        (match mode {
            0 => j,
            1 => 2 * j,
            _ => 2 * j + 1,
        }) as u32
    };
    let avail = if mode == 0 { n_ok } else { n_ok / 2 };
    // number of distinct calls made while the victim is parked: exactly base - 1, base or base + 1 (a ring of 2^k
    // entries is back at the victim's entry after exactly 2^k operations), or anywhere in base - 8 ..= base + 72
    let w = if r.chance(0.6) { base + r.below(3) - 1 } else { (base + r.below(81)).saturating_sub(8) };
    let w = w.min(avail.saturating_sub(3)).max(1);
    let mut busy: Vec<u32> = (0..w).map(|j| idx(j)).collect();
    // how the busy caller's last call before the victim resumes ends: completed, failed (a reservation a failing call
    // never completes stays open), or still in flight (parked in the middle of it)
    let variant = r.below(3);
    if variant == 1 && n_fail > 0 {
        busy[w - 1] = (n_ok + r.below(n_fail)) as u32;
    }
    // then the most recent calls again (what a wrapped ticket / recycled slot would have corrupted)
    let back = 70.min(w);
    let again: Vec<u32> = (w - back..w).rev().map(|i| busy[i]).collect();
    busy.extend(again);
    let victim_entry = idx((w + 1).min(avail - 1));
    let victim_ticks = pool.entries[victim_entry as usize].ticks.max(1) as usize;
    let t0 = 1 + r.below(victim_ticks) as u32;
    // clients: 0 = busy, 1 = victim (two calls: the parked one and a repeat of it)
    let clients = vec![busy, vec![victim_entry, victim_entry]];
    let mut switches = vec![crate::sim::Sw { thread: 1, call: 0, tick: t0, to: 0 }];
    if variant == 2 {
        let last_ticks = pool.entries[clients[0][w - 1] as usize].ticks.max(1) as usize;
        switches.push(crate::sim::Sw { thread: 0, call: (w - 1) as u32, tick: 1 + r.below(last_ticks) as u32, to: 1 });
    } else {
        switches.push(crate::sim::Sw { thread: 0, call: w as u32, tick: 0, to: 1 });
    }
    RunSpec {
        seed,
        clients,
        churn: vec![vec![], vec![]],
        policy: Policy::Replay,
        start: 1,
        switches,
        est_steps: 0,
        want_trace: false,
        faults_enabled: vec!["stall_and_wrap"],
        clock_jumps: vec![vec![], vec![]],
        stack_depths: vec![vec![], vec![]],
        cpu_limits: vec![0, 0],
        kill_step: 0,
        io_fault: io_plan(seed, 20),
        power: 0,
        next: None,
    }
}

/// the crowd run (see RunKind::Crowd)
fn crowd_spec(pool: &Pool, ix: &PoolIndex, seed: u64) -> RunSpec {
    let mut r = Rng::new(mix(seed, 0x6372_6f77));
    let b = [2usize, 4, 8, 8, 8, 16, 16, 32][r.below(8)];
    let k = (b + r.below(4)).saturating_sub(1).clamp(1, 35);
    let ev: Option<Ev> = if !ix.hint_evs.is_empty() && r.chance(0.8) {
        Some(*r.pick(&ix.hint_evs))
    } else if r.chance(0.8) {
        Some(*r.pick(&ALL_EV))
    } else {
        None
    };
    // an expression of that evaluator whose calls return (no panics), cheap enough to park 35 of
    let pick_expr = |r: &mut Rng| -> u32 {
        let from: &Vec<u32> = if !ix.sensitive_exprs.is_empty() && r.chance(0.8) { &ix.sensitive_exprs } else { &ix.ok };
        let by_entry = !std::ptr::eq(from, &ix.sensitive_exprs);
        for _ in 0..40 {
            let x = *r.pick(from);
            let id = if by_entry { pool.entries[x as usize].expr_id } else { x };
            let es = &pool.by_expr[id as usize];
            let e0 = &pool.entries[es[0] as usize];
            if ev.map_or(true, |v| e0.call.ev == v) && es.iter().all(|e| !matches!(pool.entries[*e as usize].oracle, Outcome::Panic(_)) && pool.entries[*e as usize].ticks < 60_000) {
                return id;
            }
        }
        pool.entries[ix.ok[r.below(ix.ok.len())] as usize].expr_id
    };
    let ni = r.range(1, 2);
    let n = k + ni;
    let mut clients: Vec<Vec<u32>> = Vec::new();
    let mut switches: Vec<crate::sim::Sw> = Vec::new();
    let mut exprs: Vec<u32> = Vec::new();
    let mut parked_at: Vec<u32> = Vec::new();
    for i in 0..k {
        let ex = if i > 0 && r.chance(0.2) { *r.pick(&exprs) } else { pick_expr(&mut r) };
        exprs.push(ex);
        let es = &pool.by_expr[ex as usize];
        let warm = if r.chance(0.8) { 1 } else { 0 };
        let after = r.range(1, 2);
        let calls: Vec<u32> = (0..warm + 1 + after).map(|_| *r.pick(es)).collect();
        let t = 1 + r.below(pool.entries[calls[warm] as usize].ticks.max(1) as usize) as u32;
        switches.push(crate::sim::Sw { thread: i as u32, call: warm as u32, tick: t, to: (i + 1) as u32 });
        parked_at.push(warm as u32);
        clients.push(calls);
    }
    // the finishing order of the parked calls
    let mut order: Vec<usize> = (0..k).collect();
    r.shuffle(&mut order);
    for j in 0..ni {
        let m = r.range(1, 3);
        let mut calls: Vec<u32> = Vec::new();
        let mut mine: Vec<u32> = Vec::new();
        for _ in 0..m {
            let ex = if r.chance(0.25) { *r.pick(&exprs) } else { pick_expr(&mut r) };
            mine.push(ex);
            calls.push(*r.pick(&pool.by_expr[ex as usize]));
        }
        // afterwards, on an idle library: the same formulas again
        for _ in 0..r.range(1, 3) {
            let ex = *r.pick(&mine);
            calls.push(*r.pick(&pool.by_expr[ex as usize]));
        }
        let to = if j + 1 < ni { k + j + 1 } else { order[0] };
        switches.push(crate::sim::Sw { thread: (k + j) as u32, call: m as u32, tick: 0, to: to as u32 });
        clients.push(calls);
    }
    for w in 0..k.saturating_sub(1) {
        let t = order[w];
        switches.push(crate::sim::Sw { thread: t as u32, call: parked_at[t] + 1, tick: 0, to: order[w + 1] as u32 });
    }
    let est_steps: u64 = clients.iter().map(|c| c.iter().map(|e| pool.entries[*e as usize].ticks as u64 + 1).sum::<u64>() + 1).sum();
    RunSpec {
        seed,
        clients,
        churn: vec![vec![]; n],
        policy: Policy::Replay,
        start: 0,
        switches,
        est_steps,
        want_trace: false,
        faults_enabled: vec!["crowd"],
        clock_jumps: vec![vec![]; n],
        stack_depths: vec![vec![]; n],
        cpu_limits: vec![0; n],
        kill_step: 0,
        io_fault: io_plan(seed, 20),
        power: 0,
        next: None,
    }
}

/// the restart run (see RunKind::Restart): a chain of specs, one per process incarnation
fn restart_spec(pool: &Pool, ix: &PoolIndex, seed: u64, allow_intra: bool) -> RunSpec {
    let mut r = Rng::new(mix(seed, 0x7265_7374));
    let ev: Ev = if !ix.hint_evs.is_empty() && r.chance(0.8) { *r.pick(&ix.hint_evs) } else { *r.pick(&ALL_EV) };
    // the set of calls: mostly from the function buckets the change touches, else any calls of the evaluator
    let size = [40usize, 150, 400, 800][r.below(4)];
    let hb: Vec<usize> = ix.hint_buckets.iter().copied().filter(|b| ix.fn_buckets[*b].0 == ev as u8).collect();
    let mut set: Vec<u32> = Vec::with_capacity(size);
    // half of the runs over a focused change work through whole argument lattices of one to three of the functions
    // it names: hundreds of distinct arguments, so that whatever the library accumulates (tables, files) gets big
    let lat: &[u32] = ix.lattice_exprs.get(ev as usize).map(|v| v.as_slice()).unwrap_or(&[]);
    if !lat.is_empty() && r.chance(0.5) {
        for _ in 0..r.range(1, 3) {
            let ex = *r.pick(lat);
            for e in pool.by_expr[ex as usize].iter() {
                let en = &pool.entries[*e as usize];
                if !matches!(en.oracle, Outcome::Panic(_)) && !set.contains(e) {
                    set.push(*e);
                }
            }
        }
    }
    let size = size.max(set.len());
    let mut guard = 0;
    while set.len() < size && guard < size * 30 {
        guard += 1;
        let e = if !hb.is_empty() && r.chance(0.8) {
            let b = *r.pick(&hb);
            *r.pick(&ix.fn_buckets[b].2)
        } else if !ix.ok_by_ev[ev as usize].is_empty() {
            *r.pick(&ix.ok_by_ev[ev as usize])
        } else {
            *r.pick(&ix.ok)
        };
        let en = &pool.entries[e as usize];
        if en.ticks < 200_000 && !matches!(en.oracle, Outcome::Panic(_)) && !set.contains(&e) {
            set.push(e);
        }
    }
    if set.is_empty() {
        set.push(ix.ok[0]);
    }
    let phases = r.range(2, 3);
    let mut specs: Vec<RunSpec> = Vec::new();
    for ph in 0..phases {
        let nthreads = if ph == 0 { [2usize, 3, 4, 8, 8][r.below(5)] } else { [1usize, 1, 2][r.below(3)] };
        let mut order = set.clone();
        r.shuffle(&mut order);
        let mut clients: Vec<Vec<u32>> = vec![Vec::new(); nthreads];
        if ph == 0 {
            // every thread works through its share; a few calls are made by two threads
            for (i, e) in order.iter().enumerate() {
                clients[i % nthreads].push(*e);
                if r.chance(0.1) {
                    clients[r.below(nthreads)].push(*e);
                }
            }
        } else {
            for (i, e) in order.iter().enumerate() {
                clients[i % nthreads].push(*e);
            }
        }
        let policy = if ph == 0 { pick_policy(&mut r, nthreads, RunKind::Short, allow_intra) } else if nthreads == 1 { Policy::Serial } else { Policy::CallAtomic { q: 0.5 } };
        let est_steps: u64 = clients.iter().map(|c| c.iter().map(|e| pool.entries[*e as usize].ticks as u64 + 1).sum::<u64>() + 1).sum();
        // half of the non-final incarnations are killed somewhere in the second half of their work
        let kill_step = if ph + 1 < phases && r.chance(0.5) { est_steps / 2 + r.below((est_steps / 2).max(1) as usize) as u64 } else { 0 };
        specs.push(RunSpec {
            seed: mix(seed, ph as u64),
            clients,
            churn: vec![vec![]; nthreads],
            policy,
            start: 0,
            switches: Vec::new(),
            est_steps,
            want_trace: true,
            faults_enabled: vec!["restart"],
            clock_jumps: vec![vec![]; nthreads],
            stack_depths: vec![vec![]; nthreads],
            cpu_limits: vec![0; nthreads],
            kill_step,
            io_fault: io_plan(mix(seed, ph as u64), 60),
            power: if ph + 1 < phases && mix(seed, 0x70_7772 + ph as u64) % 100 < 50 { mix(seed, 0x70_7773 + ph as u64) | 1 } else { 0 },
            next: None,
        });
    }
    let mut chain: Option<RunSpec> = None;
    while let Some(mut sp) = specs.pop() {
        sp.next = chain.take().map(Box::new);
        chain = Some(sp);
    }
    chain.unwrap()
}

/// "Thread parade": a thread-per-request server. One or two long-lived callers work through a list of calls while one
/// or two other clients hand every call (or every second call) to a new OS thread: 130-520 threads come and go in one
/// process, at most four alive at a time. State indexed by how many threads a process has seen - round-robin
/// stripes, per-thread slots handed out from a counter, tables keyed by a recycled thread id - wraps or is reused
/// only then. All callers use placeholder-sensitive expressions of one evaluator (one the change touches, if any).
fn parade_spec(pool: &Pool, ix: &PoolIndex, seed: u64, allow_intra: bool) -> RunSpec {
    let mut r = Rng::new(mix(seed, 0x7061_7261_6465_32));
    let ev = if !ix.hint_evs.is_empty() && r.chance(0.8) { *r.pick(&ix.hint_evs) } else { *r.pick(&ALL_EV) };
    let mut work: Vec<u32> = Vec::new();
    let mut guard = 0;
    while work.len() < 24 && guard < 2000 {
        guard += 1;
        let e = if !ix.sensitive_exprs.is_empty() && r.chance(0.8) {
            let ex = *r.pick(&ix.sensitive_exprs);
            *r.pick(&pool.by_expr[ex as usize])
        } else if !ix.ok_by_ev[ev as usize].is_empty() {
            *r.pick(&ix.ok_by_ev[ev as usize])
        } else {
            *r.pick(&ix.ok)
        };
        let en = &pool.entries[e as usize];
        if en.call.ev == ev && en.ticks < 20_000 && !matches!(en.oracle, Outcome::Panic(_)) {
            work.push(e);
        }
    }
    if work.is_empty() {
        work.push(ix.ok[0]);
    }
    let nlong = if r.chance(0.7) { 1 } else { 2 };
    let nshort = if r.chance(0.6) { 1 } else { 2 };
    let threads_total = [130usize, 136, 150, 200, 260, 300, 520][r.below(7)];
    let per_thread = if r.chance(0.5) { 1 } else { 2 };
    let mut clients: Vec<Vec<u32>> = Vec::new();
    let mut churn: Vec<Vec<u32>> = Vec::new();
    for _ in 0..nlong {
        let n = threads_total * per_thread / nshort;
        clients.push((0..n).map(|_| *r.pick(&work)).collect());
        churn.push(Vec::new());
    }
    for _ in 0..nshort {
        let n = threads_total * per_thread / nshort;
        clients.push((0..n).map(|_| *r.pick(&work)).collect());
        churn.push((0..n as u32).filter(|k| (*k as usize + 1) % per_thread == 0).collect());
    }
    let n = clients.len();
    let policy = pick_policy(&mut r, n, RunKind::Short, allow_intra);
    let est_steps: u64 = clients.iter().map(|c| c.iter().map(|e| pool.entries[*e as usize].ticks as u64 + 1).sum::<u64>() + 1).sum();
    RunSpec {
        seed,
        clients,
        churn,
        policy,
        start: 0,
        switches: Vec::new(),
        est_steps,
        want_trace: false,
        faults_enabled: vec!["thread_parade"],
        clock_jumps: vec![vec![]; n],
        stack_depths: vec![vec![]; n],
        cpu_limits: vec![0; n],
        kill_step: 0,
        io_fault: 0,
        power: 0,
        next: None,
    }
}

/// A run around syntax the change under test may have introduced: one or two calls that use a new word (chosen by
/// kind of outcome first, so that the rare ones - accepted, or failing inside - are not drowned among the rejected),
/// then one call of every function / operator bucket of an evaluator, each compared with its isolated evaluation:
/// whatever the new construct leaves behind, some existing function meets it.
fn new_word_spec(pool: &Pool, ix: &PoolIndex, seed: u64, allow_intra: bool) -> RunSpec {
    let mut r = Rng::new(mix(seed, 0x6e65_7777_6f72));
    let mut groups: std::collections::BTreeMap<(u8, String), Vec<u32>> = std::collections::BTreeMap::new();
    for e in ix.new_words.iter() {
        let en = &pool.entries[*e as usize];
        let key = match &en.oracle {
            Outcome::Ok(_) => "ok".to_string(),
            Outcome::Err(v, m) => format!("{} {}", v, m.chars().filter(|c| !c.is_ascii_digit()).take(28).collect::<String>()),
            Outcome::Panic(m) => format!("panic {}", m.chars().filter(|c| !c.is_ascii_digit()).take(28).collect::<String>()),
        };
        groups.entry((en.call.ev as u8, key)).or_default().push(*e);
    }
    let groups: Vec<Vec<u32>> = groups.into_values().collect();
    let nthreads = [1usize, 1, 1, 2, 2, 3][r.below(6)];
    let mut clients: Vec<Vec<u32>> = Vec::new();
    for _ in 0..nthreads {
        let mut calls: Vec<u32> = Vec::new();
        let first = { let g = r.below(groups.len()); *r.pick(&groups[g]) };
        let ev = pool.entries[first as usize].call.ev;
        calls.push(first);
        if r.chance(0.4) {
            { let g = r.below(groups.len()); calls.push(*r.pick(&groups[g])); }
        }
        // probes: one call per function bucket, of the same evaluator or (one run in three) of any
        let any_ev = r.chance(0.33);
        let mut probes: Vec<u32> = Vec::new();
        for (bev, _tok, list) in ix.fn_buckets.iter() {
            if (any_ev || *bev == ev as u8) && !list.is_empty() && r.chance(if any_ev { 0.4 } else { 0.9 }) {
                probes.push(*r.pick(list));
            }
        }
        // and other uses of the new words: what one of them leaves may be visible only to another
        for _ in 0..r.range(4, 20) {
            probes.push(*r.pick(&ix.new_words));
        }
        r.shuffle(&mut probes);
        probes.truncate(80);
        let mid = probes.len() / 2;
        for (i, p) in probes.iter().enumerate() {
            if i == mid && r.chance(0.3) {
                { let g = r.below(groups.len()); calls.push(*r.pick(&groups[g])); }
            }
            calls.push(*p);
        }
        clients.push(calls);
    }
    let policy = if nthreads == 1 { Policy::Serial } else { pick_policy(&mut r, nthreads, RunKind::Short, allow_intra) };
    let est_steps: u64 = clients.iter().map(|c| c.iter().map(|e| pool.entries[*e as usize].ticks as u64 + 1).sum::<u64>() + 1).sum();
    RunSpec {
        seed,
        clients,
        churn: vec![vec![]; nthreads],
        policy,
        start: 0,
        switches: Vec::new(),
        est_steps,
        want_trace: false,
        faults_enabled: vec!["new_words"],
        clock_jumps: vec![vec![]; nthreads],
        stack_depths: vec![vec![]; nthreads],
        cpu_limits: vec![0; nthreads],
        kill_step: 0,
        io_fault: 0,
        power: 0,
        next: None,
    }
}

/// fault kind F11: the run's plan of injected I/O errors, drawn apart from the run's other choices (0 = none;
/// the two low bits choose the rate, see disk.rs)
pub fn io_plan(seed: u64, percent: u64) -> u64 {
    let h = mix(seed, 0x696f_6661_756c);
    if (h >> 8) % 100 < percent {
        h | 4
    } else {
        0
    }
}

pub const FAULT_NAMES: [&str; 10] = [
    "F1_err_call",
    "F2_panic_call",
    "F3_placeholder_flip",
    "F4_evaluator_switch",
    "F5_preempt_in_call",
    "F6_thread_churn",
    "F7_same_call_concurrent",
    "F8_clock_jump",
    "F9_caller_stack_depth",
    "F10_cpu_affinity",
];

fn pick_policy(r: &mut Rng, nthreads: usize, kind: RunKind, allow_intra: bool) -> Policy {
    if let RunKind::Long { .. } = kind {
        return if nthreads == 1 || r.chance(0.3) { Policy::Serial } else { Policy::CallAtomic { q: 0.5 } };
    }
    let k = r.below(100);
    if !allow_intra {
        return if k < 35 { Policy::Serial } else { Policy::CallAtomic { q: [0.2, 0.5, 0.9][r.below(3)] } };
    }
    // with block-level ticks a call has ~50x more decision points: scale the per-tick switch probability
    let bb = bb_guards() > 0;
    let scale = if bb { 1.0 / 120.0 } else { 1.0 };
    if k < 6 {
        Policy::Serial
    } else if k < 16 {
        Policy::CallAtomic { q: [0.2, 0.5, 0.9][r.below(3)] }
    } else if k < 42 {
        Policy::RandomWalk { p: [0.01, 0.03, 0.1, 0.3][r.below(4)] * scale }
    } else if k < 60 {
        Policy::Pct { k: r.range(1, 3) }
    } else if k < 78 || !bb {
        // the real source sites only
        Policy::Targeted { site: r.below(SITE_COUNT), p: 0.02 * scale }
    } else {
        Policy::RaceDirected { p: [0.0, 0.002, 0.01][r.below(3)] * scale * 10.0, q: [0.2, 0.5, 0.9][r.below(3)] }
    }
}

pub fn make_spec(pool: &Pool, ix: &PoolIndex, seed: u64, kind: RunKind, allow_intra: bool) -> RunSpec {
    if let RunKind::StallWrap { base } = kind {
        return stall_wrap_spec(pool, seed, base);
    }
    if kind == RunKind::Crowd {
        // a third of the crowd batch is the thread parade
        if mix(seed, 0x7061_7261_6465) % 100 < 33 {
            return parade_spec(pool, ix, seed, allow_intra);
        }
        return crowd_spec(pool, ix, seed);
    }
    if kind == RunKind::Restart {
        return restart_spec(pool, ix, seed, allow_intra);
    }
    if kind == RunKind::Short && !ix.new_words.is_empty() && mix(seed, 0x6e77_6f72_64) % 100 < 30 {
        return new_word_spec(pool, ix, seed, allow_intra);
    }
    let mut r = Rng::new(mix(seed, 0x776f_726b));
    let nthreads = match kind {
        RunKind::Short => [1usize, 2, 2, 2, 2, 3, 3, 3, 4, 4][r.below(10)],
        RunKind::Wide => 16,
        RunKind::Long { .. } => [1usize, 1, 2, 4, 16][r.below(5)],
        RunKind::StallWrap { .. } | RunKind::Crowd | RunKind::Restart => 2,
    };
    // swarm: enabled fault kinds for this run
    let f1 = r.chance(0.6) && !ix.err.is_empty();
    let f2 = r.chance(0.35) && !ix.panic.is_empty();
    let f3 = r.chance(0.5) && !ix.sensitive_exprs.is_empty();
    let f4 = r.chance(0.4) && !ix.cross_texts.is_empty();
    let f6 = r.chance(0.3);
    let f8 = r.chance(0.3);
    let f9 = r.chance(0.15);
    let f10 = r.chance(0.2);
    let rel = r.chance(0.2) && !ix.rel_exprs.is_empty();
    // experiment knob (never set by the registered checks): SC_DISABLE_FAULTS=F6,F8,F9,F10
    let off = std::env::var("SC_DISABLE_FAULTS").unwrap_or_default();
    let (f6, f8, f9, f10) = (f6 && !off.contains("F6"), f8 && !off.contains("F8"), f9 && !off.contains("F9"), f10 && !off.contains("F10"));
    let mut faults_enabled: Vec<&'static str> = Vec::new();
    for (on, name) in [(f1, "F1"), (f2, "F2"), (f3, "F3+F7_theme"), (f4, "F4"), (f6, "F6"), (f8, "F8"), (f9, "F9"), (f10, "F10")] {
        if on {
            faults_enabled.push(name);
        }
    }
    let hot: Vec<u32> = if f3 {
        if !pool.sib_groups.is_empty() && r.chance(0.3) {
            // near-duplicate expressions back to back and side by side
            r.pick(&pool.sib_groups).clone()
        } else {
            let n = r.range(1, 3);
            // with a change under test, half of the hot sets come from the expressions generated for it
            let from = if !ix.focus_exprs.is_empty() && r.chance(0.5) { &ix.focus_exprs } else { &ix.sensitive_exprs };
            (0..n).map(|_| *r.pick(from)).collect()
        }
    } else {
        Vec::new()
    };
    // function theme: most calls of the run use one function / operator of one evaluator
    // (long histories are themed less often: adaptive state that switches on after enough work of one kind)
    let is_long = matches!(kind, RunKind::Long { .. });
    let mut bucket2: Option<usize> = None;
    let bucket: Option<usize> = if !ix.fn_buckets.is_empty() && r.chance(if is_long { 0.3 } else { 0.4 }) {
        if !ix.hint_buckets.is_empty() && r.chance(0.7) {
            let b = *r.pick(&ix.hint_buckets);
            // a change that touches several functions: their interaction (state one leaves for the other) is the
            // likely defect - half of these runs alternate between two of them
            if ix.hint_buckets.len() >= 2 && r.chance(0.5) {
                let b2 = *r.pick(&ix.hint_buckets);
                if b2 != b {
                    bucket2 = Some(b2);
                }
            }
            Some(b)
        } else {
            Some(r.below(ix.fn_buckets.len()))
        }
    } else {
        None
    };
    if rel {
        faults_enabled.push("value_relatives");
    }
    // "hot placeholder": all themed calls of the run use one placeholder value (many formulas, one input) - traffic
    // dominated by one argument range, e.g. only large factorials
    // In a long themed history the hot placeholder changes every few hundred calls ("sweep"): the history passes
    // through stretches of small, of mid-range and of huge arguments, in random order.
    let mut themed_entries: Vec<u32> = Vec::new();
    let mut sweep: Vec<Vec<u32>> = Vec::new();
    let mut sweep_len = 0usize;
    if let Some(b) = bucket {
        faults_enabled.push("function_theme");
        let list = &ix.fn_buckets[b].2;
        if is_long && r.chance(0.6) {
            let mut by_ph: std::collections::BTreeMap<Ph, Vec<u32>> = std::collections::BTreeMap::new();
            for e in list.iter() {
                by_ph.entry(pool.entries[*e as usize].call.ph).or_default().push(*e);
            }
            sweep = by_ph.into_values().collect();
            r.shuffle(&mut sweep);
            sweep_len = [200usize, 500, 1000][r.below(3)];
            faults_enabled.push("placeholder_sweep");
        } else if bucket2.is_none() && r.chance(0.3) {
            let ph = pool.entries[*r.pick(list) as usize].call.ph;
            let same: Vec<u32> = list.iter().copied().filter(|e| pool.entries[*e as usize].call.ph == ph).collect();
            if same.len() >= 3 {
                themed_entries = same;
                faults_enabled.push("hot_placeholder");
            }
        }
    }
    let total_calls_long = if let RunKind::Long { calls } = kind { calls } else { 0 };
    // long histories: half of them concentrate on one evaluator, so that per-evaluator state (a bounded cache,
    // a growing buffer) sees thousands of distinct calls; the hot-expression theme is mostly off there
    // (with a change under test: more often, and mostly on an evaluator the change touches)
    let focus: Option<Ev> = if total_calls_long > 0 && r.chance(if ix.hint_evs.is_empty() { 0.5 } else { 0.75 }) {
        if !ix.hint_evs.is_empty() && r.chance(0.75) {
            Some(*r.pick(&ix.hint_evs))
        } else {
            Some(*r.pick(&ALL_EV))
        }
    } else {
        None
    };
    // long histories: 40% of them draw every call from a small working set (an application re-evaluates a bounded set
    // of formulas), so that each formula is seen many times: adaptive state that switches on after N sightings,
    // per-formula caches at capacity, aliases that go stale on eviction. Whole sibling groups go in together.
    let working_set: Vec<u32> = if total_calls_long > 0 && bucket.is_none() && r.chance(0.55) {
        let k = [60usize, 150, 300, 600][r.below(4)];
        let mut ws: Vec<u32> = Vec::with_capacity(k + 16);
        let mut guard = 0;
        while ws.len() < k && guard < k * 20 {
            guard += 1;
            if !pool.sib_groups.is_empty() && r.chance(0.15) {
                for id in r.pick(&pool.sib_groups).clone() {
                    ws.extend(pool.by_expr[id as usize].iter().copied());
                }
                continue;
            }
            let c = r.below(pool.entries.len());
            let e = &pool.entries[c];
            if matches!(e.oracle, Outcome::Panic(_)) && !f2 {
                continue;
            }
            if let Some(fe) = focus {
                if e.call.ev != fe && r.chance(0.8) {
                    continue;
                }
            }
            ws.push(c as u32);
        }
        ws
    } else {
        Vec::new()
    };
    let hot: Vec<u32> = if total_calls_long > 0 && r.chance(0.7) { Vec::new() } else { hot };
    let time_scale: i64 = [10_000_000i64, 100_000_000, 1_000_000_000, 5_000_000_000, 30_000_000_000, 300_000_000_000, 3_600_000_000_000, 86_400_000_000_000][r.below(8)];
    let mut clients: Vec<Vec<u32>> = Vec::new();
    let mut churn: Vec<Vec<u32>> = Vec::new();
    let mut jumps: Vec<Vec<(u32, i64, i64)>> = Vec::new();
    let mut depths: Vec<Vec<(u32, u32)>> = Vec::new();
    let mut cpus: Vec<u32> = Vec::new();
    for _t in 0..nthreads {
        let ncalls = match kind {
            RunKind::Short => {
                // most runs short; a tail up to 40
                let k = r.below(100);
                if k < 55 {
                    r.range(1, 4)
                } else if k < 85 {
                    r.range(3, 10)
                } else {
                    r.range(8, 40)
                }
            }
            RunKind::Wide => r.range(1, 6),
            RunKind::Long { .. } => (total_calls_long / nthreads).max(1),
            RunKind::StallWrap { .. } | RunKind::Crowd | RunKind::Restart => 1,
        };
        let mut calls: Vec<u32> = Vec::with_capacity(ncalls);
        while calls.len() < ncalls {
            // "A, B, A": come back to the call before last (a caller alternating between two formulas; whatever B did to
            // shared or per-thread state is met by A again at once)
            if calls.len() >= 2 && r.chance(0.1) {
                let again = calls[calls.len() - 2];
                calls.push(again);
                continue;
            }
            if rel && r.chance(if total_calls_long > 0 { 0.03 } else { 0.35 }) {
                // a base value and its representation relatives, the same formula, back to back on this thread
                let mut ex = *r.pick(&ix.rel_exprs);
                if !ix.hint_evs.is_empty() {
                    for _ in 0..8 {
                        if ix.hint_evs.contains(&pool.entries[pool.by_expr[ex as usize][0] as usize].call.ev) {
                            break;
                        }
                        ex = *r.pick(&ix.rel_exprs);
                    }
                }
                let mut fam: Vec<u32> = pool.by_expr[ex as usize].iter().copied().filter(|e| f2 || !matches!(pool.entries[*e as usize].oracle, Outcome::Panic(_))).collect();
                r.shuffle(&mut fam);
                calls.extend(fam);
                continue;
            }
            if !working_set.is_empty() {
                calls.push(*r.pick(&working_set));
                continue;
            }
            if let Some(b0) = bucket {
                if r.chance(0.75) {
                    let b = match bucket2 {
                        Some(b2) if r.chance(0.5) => b2,
                        _ => b0,
                    };
                    let pan = &ix.fn_bucket_panics[b];
                    if !pan.is_empty() && r.chance(0.12) {
                        calls.push(*r.pick(pan));
                    } else if !sweep.is_empty() {
                        let seg = &sweep[(calls.len() / sweep_len) % sweep.len()];
                        calls.push(*r.pick(seg));
                    } else if !themed_entries.is_empty() {
                        calls.push(*r.pick(&themed_entries));
                    } else {
                        calls.push(*r.pick(&ix.fn_buckets[b].2));
                    }
                    continue;
                }
            }
            if !ix.hint_evs.is_empty() && bucket.is_none() && r.chance(0.5) {
                let ev = *r.pick(&ix.hint_evs) as usize;
                if !ix.ok_by_ev[ev].is_empty() {
                    calls.push(*r.pick(&ix.ok_by_ev[ev]));
                    continue;
                }
            }
            if !hot.is_empty() && r.chance(0.7) {
                let ex = *r.pick(&hot);
                calls.push(*r.pick(&pool.by_expr[ex as usize]));
                continue;
            }
            if f4 && r.chance(0.15) {
                // the same text through several evaluators, back to back
                let ids = r.pick(&ix.cross_texts).clone();
                for id in ids {
                    if calls.len() < ncalls {
                        calls.push(*r.pick(&pool.by_expr[id as usize]));
                    }
                }
                continue;
            }
            if let Some(fe) = focus {
                if r.chance(0.85) {
                    // rejection-sample an entry of the focus evaluator
                    let mut pickd = None;
                    for _ in 0..12 {
                        let c = r.below(pool.entries.len());
                        let e = &pool.entries[c];
                        if e.call.ev == fe && (f2 || !matches!(e.oracle, Outcome::Panic(_))) {
                            pickd = Some(c as u32);
                            break;
                        }
                    }
                    if let Some(c) = pickd {
                        calls.push(c);
                        continue;
                    }
                }
            }
            let k = r.unit();
            if (f2 && k < 0.08) || (f1 && k < 0.30) {
                // a failing call: half of the time uniform over failing entries, half of the time uniform over
                // failure KINDS; then, often, an "aftershock": the next call on this thread goes to the same
                // evaluator (state a failing call leaves behind is most likely met by its own evaluator)
                let panic = f2 && k < 0.08;
                // the evaluator this run (or the change under test) concentrates on fails in its own ways: most failing
                // calls of such a run are its own
                let own: Option<usize> = match focus {
                    Some(fe) => Some(fe as usize),
                    None if !ix.hint_evs.is_empty() => Some(*r.pick(&ix.hint_evs) as usize),
                    None => None,
                };
                let own_list: &[u32] = match own {
                    Some(ev) if r.chance(0.7) => if panic { &ix.panic_by_ev[ev] } else { &ix.err_by_ev[ev] },
                    _ => &[],
                };
                let e = if !own_list.is_empty() {
                    *r.pick(own_list)
                } else if panic {
                    if r.chance(0.5) {
                        *r.pick(&ix.panic)
                    } else {
                        let kind = r.below(ix.panic_kinds.len());
                        *r.pick(&ix.panic_kinds[kind])
                    }
                } else if r.chance(0.5) {
                    *r.pick(&ix.err)
                } else {
                    let kind = r.below(ix.err_kinds.len());
                    *r.pick(&ix.err_kinds[kind])
                };
                calls.push(e);
                if calls.len() < ncalls && r.chance(0.6) {
                    let ev = pool.entries[e as usize].call.ev as usize;
                    if !ix.ok_by_ev[ev].is_empty() {
                        calls.push(*r.pick(&ix.ok_by_ev[ev]));
                    }
                }
            } else if !ix.ok.is_empty() {
                calls.push(*r.pick(&ix.ok));
            } else {
                calls.push(r.below(pool.entries.len()) as u32);
            }
        }
        let mut ch: Vec<u32> = Vec::new();
        if f6 && ncalls >= 2 {
            let n = if ncalls > 100 { r.range(1, 8) } else { r.range(1, 2) };
            for _ in 0..n {
                let c = r.below(ncalls - 1) as u32;
                if !ch.contains(&c) {
                    ch.push(c);
                }
            }
            ch.sort();
        }
        let mut js: Vec<(u32, i64, i64)> = Vec::new();
        if f8 {
            // a time scale per run; most jumps are a random 0.1x-3x of it, placed before a good share of the calls, so
            // that state with a time-to-live near that scale is seen partially expired (some entries older than
            // the limit, some younger), not only all-fresh or all-expired; a few jumps are huge
            let n = if ncalls > 100 { r.range(4, 40) } else { (0..ncalls).filter(|_| r.chance(0.35)).count() };
            for _ in 0..n {
                let k = r.below(ncalls) as u32;
                let dm = if r.chance(0.85) {
                    ((time_scale as f64) * (0.1 + 2.9 * r.unit())) as i64
                } else {
                    [1_000i64, 3_600_000_000_000, 2_592_000_000_000_000][r.below(3)]
                };
                // the wall clock usually moves with the monotonic one, sometimes further, sometimes backwards (an NTP step)
                let dr = match r.below(5) {
                    0 => -1_000_000_000,
                    1 => -3_600_000_000_000,
                    _ => dm,
                };
                js.push((k, dm, dr));
            }
            js.sort();
        }
        let mut ds: Vec<(u32, u32)> = Vec::new();
        if f9 {
            // the caller's stack depth at the moment of the call: most calls from the thread's base, some from a frame
            // kilobytes to megabytes further down (the library must not care where on the stack its caller lives)
            for k in 0..ncalls {
                if r.chance(if ncalls > 100 { 0.01 } else { 0.2 }) {
                    ds.push((k as u32, [32u32, 64, 256, 512, 1100, 1300, 2048, 4096][r.below(8)]));
                }
            }
        }
        depths.push(ds);
        // the number of CPUs the caller's thread may use is the caller's business, not an input of the library
        cpus.push(if f10 { [1u32, 1, 2, 3, 5][r.below(5)] } else { 0 });
        jumps.push(js);
        clients.push(calls);
        churn.push(ch);
    }
    let policy = pick_policy(&mut r, nthreads, kind, allow_intra);
    let est_steps: u64 = clients
        .iter()
        .map(|c| c.iter().map(|e| pool.entries[*e as usize].ticks as u64 + 1).sum::<u64>() + 1)
        .sum();
    RunSpec {
        seed,
        clients,
        churn,
        policy,
        start: 0,
        switches: Vec::new(),
        est_steps,
        want_trace: false,
        faults_enabled,
        clock_jumps: jumps,
        stack_depths: depths,
        cpu_limits: cpus,
        kill_step: 0,
        io_fault: io_plan(seed, 20),
        power: 0,
        next: None,
    }
}
