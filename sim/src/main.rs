//! sc_sim — deterministic simulation of concurrent callers of `string_calculator` (property C16).
#![recursion_limit = "512"]
mod case;
mod disk;
mod driver;
mod gen;
mod minimise;
mod miri;
mod oracle;
mod proc;
mod sim;
mod tick;
mod types;
mod wire;
mod workload;

use driver::CheckOpts;

fn arg_val(args: &[String], key: &str) -> Option<String> {
    args.iter().position(|a| a == key).and_then(|i| args.get(i + 1).cloned())
}

fn main() {
    proc::ignore_sigpipe();
    // the library's own panics are outcomes, not noise
    std::panic::set_hook(Box::new(|_| {}));
    let args: Vec<String> = std::env::args().collect();
    let cmd = args.get(1).map(|s| s.as_str()).unwrap_or("help");
    // the worker processes are forked now, while this process is still tiny (see proc.rs)
    if matches!(cmd, "check" | "replay" | "selftest" | "hunt" | "debug-seed" | "one" | "iso-batch") {
        let n = arg_val(&args, "--workers").and_then(|s| s.parse().ok()).unwrap_or(16usize).max(1);
        proc::spawn_zygotes(n, wire::item_entry);
    }
    let seed = arg_val(&args, "--seed")
        .or_else(|| std::env::var("VERIF_SEED").ok())
        .and_then(|s| s.trim().parse::<u64>().ok())
        .unwrap_or(20261001);
    let workers = arg_val(&args, "--workers").and_then(|s| s.parse().ok()).unwrap_or(16usize);
    let opts = CheckOpts {
        evidence_out: arg_val(&args, "--evidence-out"),
        ovf_bin: arg_val(&args, "--ovf-bin"),
        tier: arg_val(&args, "--tier").unwrap_or_else(|| "quick".into()),
        seed,
        repo: arg_val(&args, "--repo").unwrap_or_else(|| "/repo".into()),
        verif: arg_val(&args, "--verif").unwrap_or_else(|| "/verif".into()),
        workers,
        scale: arg_val(&args, "--scale").and_then(|s| s.parse().ok()).unwrap_or(1.0),
    };
    let code = match cmd {
        "check" => driver::check(&opts),
        "replay" => match args.get(2) {
            Some(p) => driver::replay(p, workers),
            None => 2,
        },
        "iso-batch" => match (args.get(2), args.get(3)) {
            (Some(i), Some(o)) => oracle::iso_batch_main(i, o, workers),
            _ => 2,
        },
        "debug-seed" => {
            let stream = arg_val(&args, "--stream").and_then(|s| s.parse().ok()).unwrap_or(21u64);
            let idx = arg_val(&args, "--idx").and_then(|s| s.parse().ok()).unwrap_or(0usize);
            let pad = arg_val(&args, "--pad").and_then(|s| s.parse().ok()).unwrap_or(0usize);
            driver::debug_seed(&opts, stream, idx, 2, pad)
        }
        "hunt" => {
            let n = arg_val(&args, "--runs").and_then(|s| s.parse().ok()).unwrap_or(20000usize);
            driver::hunt(&opts, args.get(2).map(|s| s.as_str()).unwrap_or(""), n)
        }
        "selftest" => {
            let n = arg_val(&args, "--seeds").and_then(|s| s.parse().ok()).unwrap_or(2000usize);
            driver::selftest(&opts, n)
        }
        "one" => {
            // sc_sim one <ev> <expr> <ph>  : isolated evaluation of a single call (debugging aid)
            let ev = types::Ev::from_name(args.get(2).map(|s| s.as_str()).unwrap_or("")).unwrap_or(types::Ev::F64);
            let expr = args.get(3).cloned().unwrap_or_default();
            let ph = args.get(4).and_then(|s| types::Ph::decode(s)).unwrap_or(match ev {
                types::Ev::F64 => types::Ph::F64(0),
                types::Ev::I64 => types::Ph::I64(0),
                types::Ev::Dec => types::Ph::Dec([0; 16]),
                types::Ev::Cx => types::Ph::Cx(0, 0),
                types::Ev::Num => types::Ph::NumI(0),
            });
            let r = oracle::isolated_many(&[types::Call { ev, expr, ph }], 1, std::time::Duration::from_secs(5));
            println!("{:?}", r[0]);
            0
        }
        _ => {
            eprintln!("usage: sc_sim check [--tier quick|thorough] [--seed N] | replay <file> | selftest [--seeds N] | one <ev> <expr> [ph]");
            2
        }
    };
    std::process::exit(code);
}
