//! Process plumbing: fork-per-item execution on W single-threaded worker processes.
//!
//! driver (single-threaded, never calls the library)
//!   └─ worker w (single-threaded, never calls the library): items w, w+W, w+2W, …
//!        └─ item child: runs the closure, writes its bytes to a pipe, _exit(0)
//!
//! `fork` is only ever called from single-threaded processes.

use std::sync::atomic::{AtomicU32, Ordering};
use std::time::{Duration, Instant};

#[derive(Clone, Copy, Debug, PartialEq, Eq)]
pub enum Exit {
    Ok,
    Code(i32),
    Signal(i32),
    Timeout,
}

impl Exit {
    fn to_bytes(self) -> [u8; 5] {
        let (k, v) = match self {
            Exit::Ok => (0u8, 0i32),
            Exit::Code(c) => (1, c),
            Exit::Signal(s) => (2, s),
            Exit::Timeout => (3, 0),
        };
        let b = v.to_le_bytes();
        [k, b[0], b[1], b[2], b[3]]
    }
    fn from_bytes(b: &[u8]) -> Exit {
        let v = i32::from_le_bytes([b[1], b[2], b[3], b[4]]);
        match b[0] {
            0 => Exit::Ok,
            1 => Exit::Code(v),
            2 => Exit::Signal(v),
            _ => Exit::Timeout,
        }
    }
}

pub fn write_all_fd(fd: i32, mut buf: &[u8]) {
    while !buf.is_empty() {
        let n = unsafe { libc::write(fd, buf.as_ptr() as *const libc::c_void, buf.len()) };
        if n < 0 {
            let e = std::io::Error::last_os_error();
            if e.raw_os_error() == Some(libc::EINTR) {
                continue;
            }
            return;
        }
        buf = &buf[n as usize..];
    }
}

fn pipe() -> (i32, i32) {
    let mut fds = [0i32; 2];
    let r = unsafe { libc::pipe(fds.as_mut_ptr()) };
    if r != 0 {
        harness_die("pipe() failed");
    }
    (fds[0], fds[1])
}

pub fn harness_die(msg: &str) -> ! {
    eprintln!("HARNESS-ERROR: {}", msg);
    unsafe { libc::_exit(2) }
}

/// The fd the current item child must write its result to (set in the child right after fork).
static mut ITEM_FD: i32 = -1;
pub fn item_fd() -> i32 {
    unsafe { ITEM_FD }
}
/// Write the item's result and leave the process immediately, whatever other threads are doing.
pub fn item_finish(bytes: &[u8]) -> ! {
    write_all_fd(item_fd(), bytes);
    unsafe { libc::_exit(0) }
}

/// Run `f` in a forked child with a wall-clock limit; returns what it wrote and how it ended.
pub fn run_item<F: FnOnce() -> Vec<u8>>(f: F, timeout: Duration) -> (Vec<u8>, Exit) {
    let (rfd, wfd) = pipe();
    let pid = unsafe { libc::fork() };
    if pid < 0 {
        harness_die("fork() failed");
    }
    if pid == 0 {
        unsafe {
            libc::close(rfd);
            libc::prctl(libc::PR_SET_PDEATHSIG, libc::SIGKILL);
            ITEM_FD = wfd;
        }
        let out = f();
        item_finish(&out);
    }
    unsafe { libc::close(wfd) };
    let deadline = Instant::now() + timeout;
    let mut out = Vec::new();
    let mut buf = [0u8; 65536];
    let mut timed_out = false;
    loop {
        let now = Instant::now();
        if now >= deadline {
            timed_out = true;
            break;
        }
        let ms = (deadline - now).as_millis().min(i32::MAX as u128) as i32;
        let mut pfd = libc::pollfd { fd: rfd, events: libc::POLLIN, revents: 0 };
        let r = unsafe { libc::poll(&mut pfd, 1, ms.max(1)) };
        if r < 0 {
            continue; // EINTR
        }
        if r == 0 {
            timed_out = true;
            break;
        }
        let n = unsafe { libc::read(rfd, buf.as_mut_ptr() as *mut libc::c_void, buf.len()) };
        if n < 0 {
            continue;
        }
        if n == 0 {
            break;
        }
        out.extend_from_slice(&buf[..n as usize]);
    }
    unsafe { libc::close(rfd) };
    if timed_out {
        unsafe { libc::kill(pid, libc::SIGKILL) };
    }
    let mut status = 0i32;
    loop {
        let r = unsafe { libc::waitpid(pid, &mut status, 0) };
        if r == pid {
            break;
        }
        if r < 0 && std::io::Error::last_os_error().raw_os_error() != Some(libc::EINTR) {
            break;
        }
    }
    let exit = if timed_out {
        Exit::Timeout
    } else if libc::WIFSIGNALED(status) {
        Exit::Signal(libc::WTERMSIG(status))
    } else if libc::WIFEXITED(status) {
        match libc::WEXITSTATUS(status) {
            0 => Exit::Ok,
            c => Exit::Code(c),
        }
    } else {
        Exit::Code(-1)
    };
    (out, exit)
}

/// A flag shared between driver, workers and children (MAP_SHARED anonymous page).
pub struct SharedFlag {
    p: *mut AtomicU32,
}
unsafe impl Send for SharedFlag {}
unsafe impl Sync for SharedFlag {}
impl SharedFlag {
    pub fn new() -> SharedFlag {
        let p = unsafe {
            libc::mmap(
                std::ptr::null_mut(),
                4096,
                libc::PROT_READ | libc::PROT_WRITE,
                libc::MAP_SHARED | libc::MAP_ANONYMOUS,
                -1,
                0,
            )
        };
        if p == libc::MAP_FAILED {
            harness_die("mmap failed");
        }
        SharedFlag { p: p as *mut AtomicU32 }
    }
    pub fn get(&self) -> u32 {
        unsafe { (*self.p).load(Ordering::SeqCst) }
    }
    pub fn set(&self, v: u32) {
        unsafe { (*self.p).store(v, Ordering::SeqCst) }
    }
    pub fn add(&self, v: u32) -> u32 {
        unsafe { (*self.p).fetch_add(v, Ordering::SeqCst) + v }
    }
}

/// Map `f` over items 0..n, each in its own forked process, on `workers` worker processes.
/// `sink(idx, bytes, exit)` is called in the driver as results arrive (arbitrary order).
/// `stop`: when it becomes non-zero, workers stop starting new items.
/// `deadline`: workers stop starting new items after it.
pub fn par_map<F, S>(
    n: usize,
    workers: usize,
    item_timeout: Duration,
    deadline: Option<Instant>,
    stop: &SharedFlag,
    f: F,
    mut sink: S,
) where
    F: Fn(usize) -> Vec<u8>,
    S: FnMut(usize, Vec<u8>, Exit),
{
    let workers = workers.max(1).min(n.max(1));
    let mut rfds = Vec::new();
    let mut pids = Vec::new();
    for w in 0..workers {
        let (rfd, wfd) = pipe();
        let pid = unsafe { libc::fork() };
        if pid < 0 {
            harness_die("fork() of worker failed");
        }
        if pid == 0 {
            unsafe {
                libc::prctl(libc::PR_SET_PDEATHSIG, libc::SIGKILL);
                libc::close(rfd);
            }
            for r in &rfds {
                unsafe { libc::close(*r) };
            }
            let mut i = w;
            while i < n {
                if stop.get() != 0 {
                    break;
                }
                if let Some(d) = deadline {
                    if Instant::now() >= d {
                        break;
                    }
                }
                let (bytes, exit) = run_item(|| f(i), item_timeout);
                let mut frame = Vec::with_capacity(bytes.len() + 13);
                frame.extend_from_slice(&(i as u32).to_le_bytes());
                frame.extend_from_slice(&exit.to_bytes());
                frame.extend_from_slice(&(bytes.len() as u32).to_le_bytes());
                frame.extend_from_slice(&bytes);
                write_all_fd(wfd, &frame);
                i += workers;
            }
            unsafe { libc::_exit(0) }
        }
        unsafe { libc::close(wfd) };
        rfds.push(rfd);
        pids.push(pid);
    }
    // driver: poll all worker pipes
    let mut bufs: Vec<Vec<u8>> = vec![Vec::new(); workers];
    let mut open: Vec<bool> = vec![true; workers];
    let mut tmp = vec![0u8; 1 << 16];
    while open.iter().any(|o| *o) {
        let mut pfds: Vec<libc::pollfd> = Vec::new();
        let mut idx = Vec::new();
        for w in 0..workers {
            if open[w] {
                pfds.push(libc::pollfd { fd: rfds[w], events: libc::POLLIN, revents: 0 });
                idx.push(w);
            }
        }
        let r = unsafe { libc::poll(pfds.as_mut_ptr(), pfds.len() as libc::nfds_t, 1000) };
        if r <= 0 {
            continue;
        }
        for (k, p) in pfds.iter().enumerate() {
            if p.revents == 0 {
                continue;
            }
            let w = idx[k];
            let nrd = unsafe { libc::read(rfds[w], tmp.as_mut_ptr() as *mut libc::c_void, tmp.len()) };
            if nrd < 0 {
                continue;
            }
            if nrd == 0 {
                open[w] = false;
                unsafe { libc::close(rfds[w]) };
                continue;
            }
            bufs[w].extend_from_slice(&tmp[..nrd as usize]);
            // parse complete frames
            let mut off = 0usize;
            loop {
                let b = &bufs[w][off..];
                if b.len() < 13 {
                    break;
                }
                let i = u32::from_le_bytes([b[0], b[1], b[2], b[3]]) as usize;
                let exit = Exit::from_bytes(&b[4..9]);
                let len = u32::from_le_bytes([b[9], b[10], b[11], b[12]]) as usize;
                if b.len() < 13 + len {
                    break;
                }
                let bytes = b[13..13 + len].to_vec();
                off += 13 + len;
                sink(i, bytes, exit);
            }
            if off > 0 {
                bufs[w].drain(..off);
            }
        }
    }
    for pid in pids {
        let mut status = 0i32;
        unsafe { libc::waitpid(pid, &mut status, 0) };
        if !(libc::WIFEXITED(status) && libc::WEXITSTATUS(status) == 0) {
            eprintln!("HARNESS-WARNING: a worker process ended abnormally (status {})", status);
        }
    }
}

pub fn ignore_sigpipe() {
    unsafe {
        libc::signal(libc::SIGPIPE, libc::SIG_IGN);
    }
}

// ---------------------------------------------------------------------------
// Zygote workers. Forking from the driver (or from a worker that inherited the driver's address space) costs
// milliseconds once the pools are in memory: the kernel copies page tables for everything mapped (measured here:
// 0.27 ms from a small process, 6-8 ms from a 200 MB one). The workers are therefore forked at program start,
// while the process is tiny, and never grow: the driver sends each item's self-contained payload over a pipe, the
// worker forks the item child (from its own small address space), collects the child's output with a wall-clock
// limit and sends it back. One item per worker at a time; the driver hands out items as workers become free.

struct Zygote {
    cmd_w: i32,
    res_r: i32,
    busy: Option<usize>,
    buf: Vec<u8>,
}

static mut ZYGOTES: Vec<Zygote> = Vec::new();
static mut ITEM_ENTRY: Option<fn(&[u8]) -> !> = None;

fn read_exact_fd(fd: i32, buf: &mut [u8]) -> bool {
    let mut off = 0;
    while off < buf.len() {
        let n = unsafe { libc::read(fd, buf[off..].as_mut_ptr() as *mut libc::c_void, buf.len() - off) };
        if n == 0 {
            return false;
        }
        if n < 0 {
            if std::io::Error::last_os_error().raw_os_error() == Some(libc::EINTR) {
                continue;
            }
            return false;
        }
        off += n as usize;
    }
    true
}

fn zygote_loop(cmd_r: i32, res_w: i32) -> ! {
    let entry = unsafe { ITEM_ENTRY };
    loop {
        let mut hdr = [0u8; 12];
        if !read_exact_fd(cmd_r, &mut hdr) {
            unsafe { libc::_exit(0) }
        }
        let idx = u32::from_le_bytes([hdr[0], hdr[1], hdr[2], hdr[3]]);
        let timeout_ms = u32::from_le_bytes([hdr[4], hdr[5], hdr[6], hdr[7]]);
        let len = u32::from_le_bytes([hdr[8], hdr[9], hdr[10], hdr[11]]) as usize;
        let mut payload = vec![0u8; len];
        if !read_exact_fd(cmd_r, &mut payload) {
            unsafe { libc::_exit(0) }
        }
        // the item's private, initially empty file tree (see disk.rs)
        crate::disk::prepare();
        let (bytes, exit) = run_item(
            || {
                crate::disk::enter();
                match entry {
                    Some(f) => f(&payload),
                    None => Vec::new(),
                }
            },
            Duration::from_millis(timeout_ms as u64),
        );
        crate::disk::cleanup();
        drop(payload);
        let mut frame = Vec::with_capacity(bytes.len() + 13);
        frame.extend_from_slice(&idx.to_le_bytes());
        frame.extend_from_slice(&exit.to_bytes());
        frame.extend_from_slice(&(bytes.len() as u32).to_le_bytes());
        frame.extend_from_slice(&bytes);
        write_all_fd(res_w, &frame);
    }
}

/// Fork `n` zygote workers. Must be called once, at program start, before the process allocates anything big and
/// before it creates threads. `entry` is what an item child runs on its payload.
pub fn spawn_zygotes(n: usize, entry: fn(&[u8]) -> !) {
    unsafe {
        ITEM_ENTRY = Some(entry);
    }
    for _ in 0..n {
        let (cmd_r, cmd_w) = pipe();
        let (res_r, res_w) = pipe();
        let pid = unsafe { libc::fork() };
        if pid < 0 {
            harness_die("fork() of zygote failed");
        }
        if pid == 0 {
            unsafe {
                libc::prctl(libc::PR_SET_PDEATHSIG, libc::SIGKILL);
                libc::close(cmd_w);
                libc::close(res_r);
                // the pipes of the zygotes created before this one
                let zs = &*std::ptr::addr_of!(ZYGOTES);
                for z in zs.iter() {
                    libc::close(z.cmd_w);
                    libc::close(z.res_r);
                }
            }
            zygote_loop(cmd_r, res_w);
        }
        unsafe {
            libc::close(cmd_r);
            libc::close(res_w);
            (*std::ptr::addr_of_mut!(ZYGOTES)).push(Zygote { cmd_w, res_r, busy: None, buf: Vec::new() });
        }
    }
}

pub fn zygote_count() -> usize {
    unsafe { (*std::ptr::addr_of!(ZYGOTES)).len() }
}

/// Run items 0..n on the first `workers` zygotes. `payload(i)` is called in the driver, in increasing order of i,
/// right before item i is handed to a free worker (None = skip the item); `keep_going()` is consulted before each
/// hand-out; `sink(i, bytes, exit)` receives results as they arrive.
pub fn zmap(
    n: usize,
    workers: usize,
    item_timeout: Duration,
    deadline: Option<Instant>,
    keep_going: &mut dyn FnMut() -> bool,
    payload: &mut dyn FnMut(usize) -> Option<Vec<u8>>,
    sink: &mut dyn FnMut(usize, Vec<u8>, Exit),
) {
    let zs = unsafe { &mut *std::ptr::addr_of_mut!(ZYGOTES) };
    if zs.is_empty() {
        harness_die("zmap called before spawn_zygotes");
    }
    let k = workers.max(1).min(zs.len());
    let tmo = item_timeout.as_millis().min(u32::MAX as u128) as u32;
    let mut next = 0usize;
    let mut inflight = 0usize;
    let mut tmp = vec![0u8; 1 << 16];
    loop {
        // hand out
        let mut stop = next >= n;
        if !stop {
            if let Some(d) = deadline {
                if Instant::now() >= d {
                    stop = true;
                }
            }
        }
        if !stop && !keep_going() {
            stop = true;
        }
        if stop {
            next = n;
        }
        for w in 0..k {
            if next >= n {
                break;
            }
            if zs[w].busy.is_some() {
                continue;
            }
            let i = next;
            next += 1;
            let p = match payload(i) {
                Some(p) => p,
                None => continue,
            };
            let mut frame = Vec::with_capacity(p.len() + 12);
            frame.extend_from_slice(&(i as u32).to_le_bytes());
            frame.extend_from_slice(&tmo.to_le_bytes());
            frame.extend_from_slice(&(p.len() as u32).to_le_bytes());
            frame.extend_from_slice(&p);
            write_all_fd(zs[w].cmd_w, &frame);
            zs[w].busy = Some(i);
            inflight += 1;
        }
        if inflight == 0 {
            if next >= n {
                break;
            }
            continue;
        }
        // collect
        let mut pfds: Vec<libc::pollfd> = Vec::new();
        let mut idx = Vec::new();
        for w in 0..k {
            if zs[w].busy.is_some() {
                pfds.push(libc::pollfd { fd: zs[w].res_r, events: libc::POLLIN, revents: 0 });
                idx.push(w);
            }
        }
        let r = unsafe { libc::poll(pfds.as_mut_ptr(), pfds.len() as libc::nfds_t, 200) };
        if r <= 0 {
            continue;
        }
        for (q, p) in pfds.iter().enumerate() {
            if p.revents == 0 {
                continue;
            }
            let w = idx[q];
            let nrd = unsafe { libc::read(zs[w].res_r, tmp.as_mut_ptr() as *mut libc::c_void, tmp.len()) };
            if nrd < 0 {
                continue;
            }
            if nrd == 0 {
                harness_die("a zygote worker died");
            }
            zs[w].buf.extend_from_slice(&tmp[..nrd as usize]);
            loop {
                let b = &zs[w].buf;
                if b.len() < 13 {
                    break;
                }
                let i = u32::from_le_bytes([b[0], b[1], b[2], b[3]]) as usize;
                let exit = Exit::from_bytes(&b[4..9]);
                let len = u32::from_le_bytes([b[9], b[10], b[11], b[12]]) as usize;
                if b.len() < 13 + len {
                    break;
                }
                let bytes = b[13..13 + len].to_vec();
                zs[w].buf.drain(..13 + len);
                zs[w].busy = None;
                inflight -= 1;
                sink(i, bytes, exit);
            }
        }
    }
}
