//! The seams through which library code reaches the simulator, and their per-thread fast path.
//!
//! Three kinds of events arrive here from code running inside a library call:
//!  * source ticks   — `verif_hooks::tick(Site)` statements in /repo (cargo feature `verif_hooks`);
//!  * block ticks    — `__sanitizer_cov_trace_pc_guard`, inserted by LLVM's SanitizerCoverage pass at every
//!                     basic-block edge of the library crates when the simulator is built through
//!                     `bin/rustc-wrap` (nothing in /repo changes for this);
//!  * memory events  — `__sanitizer_cov_load*/store*` (same pass): used only to notice accesses to memory that
//!                     another caller thread touched, as a scheduling hint (never a verdict).
//!
//! Every tick increments the calling thread's per-call tick counter and folds the site into the call's
//! trace hash. The scheduler is entered only when the counter reaches the thread's `wake` value, so a tick
//! costs a few nanoseconds unless a decision is due.

use std::cell::Cell;
use std::sync::atomic::{AtomicU32, Ordering};
use string_calculator::verif_hooks::Site;

pub const MODE_OFF: u8 = 0;
pub const MODE_ISO: u8 = 1;
pub const MODE_SIM: u8 = 2;

pub struct TickCtx {
    pub mode: Cell<u8>,
    pub in_call: Cell<bool>,
    pub in_hook: Cell<bool>,
    pub ticks: Cell<u64>,
    pub trace: Cell<u64>,
    pub cap: Cell<u64>,
    pub wake: Cell<u64>,
    pub target_site: Cell<usize>,
    pub pending_shared: Cell<bool>,
    pub pending_after: Cell<bool>,
    pub track_mem: Cell<bool>,
    pub stack_lo: Cell<usize>,
    pub stack_hi: Cell<usize>,
    pub me: Cell<usize>,
    pub call_no: Cell<u32>,
    pub synced: Cell<u64>,
    pub shared_hits: Cell<u64>,
    pub block_ticks: Cell<u64>,
    pub iso_clock_reads: Cell<u64>,
    pub rand_reads: Cell<u64>,
    /// eligible file operations this thread has issued inside library calls (index into the run's I/O fault plan)
    pub io_ops: Cell<u64>,
}

thread_local! {
    pub static T: TickCtx = const { TickCtx {
        mode: Cell::new(MODE_OFF),
        in_call: Cell::new(false),
        in_hook: Cell::new(false),
        ticks: Cell::new(0),
        trace: Cell::new(0),
        cap: Cell::new(u64::MAX),
        wake: Cell::new(u64::MAX),
        target_site: Cell::new(usize::MAX),
        pending_shared: Cell::new(false),
        pending_after: Cell::new(false),
        track_mem: Cell::new(false),
        stack_lo: Cell::new(0),
        stack_hi: Cell::new(0),
        me: Cell::new(0),
        call_no: Cell::new(0),
        synced: Cell::new(0),
        shared_hits: Cell::new(0),
        block_ticks: Cell::new(0),
        iso_clock_reads: Cell::new(0),
        rand_reads: Cell::new(0),
        io_ops: Cell::new(0),
    } };
}

/// number of basic-block guards the instrumentation registered (0 = the build is not block-instrumented)
pub static BB_GUARDS: AtomicU32 = AtomicU32::new(0);

pub fn bb_guards() -> u32 {
    BB_GUARDS.load(Ordering::Relaxed)
}

/// pseudo-site numbers (real sites are 0..SITE_COUNT)
pub const SITE_COUNT: usize = string_calculator::verif_hooks::SITE_COUNT;
pub const BOUNDARY: usize = SITE_COUNT;
pub const EXITED: usize = SITE_COUNT + 1;
pub const BBLOCK: usize = SITE_COUNT + 2;
pub const SHARED: usize = SITE_COUNT + 3;
pub const BLOCKED: usize = SITE_COUNT + 4;
pub const MEMACC: usize = SITE_COUNT + 5;
pub const AFTER_SHARED: usize = SITE_COUNT + 6;
pub const NSITES: usize = SITE_COUNT + 7;

#[inline(always)]
fn fold(h: u64, x: u64) -> u64 {
    (h ^ x).wrapping_mul(0x0000_0100_0000_01B3).rotate_left(23) ^ (x >> 29)
}

#[inline(always)]
fn on_tick(code: u64, site: usize) {
    // try_with: a tick can arrive while the thread's TLS is being torn down
    let _ = T.try_with(|c| {
        if c.mode.get() == MODE_OFF || !c.in_call.get() || c.in_hook.get() {
            return;
        }
        let t = c.ticks.get() + 1;
        c.ticks.set(t);
        c.trace.set(fold(c.trace.get(), code));
        if site == BBLOCK {
            c.block_ticks.set(c.block_ticks.get() + 1);
        }
        if t > c.cap.get() {
            c.in_hook.set(true);
            crate::sim::cap_exceeded(c.mode.get());
        }
        if t < c.wake.get() && site != c.target_site.get() {
            return;
        }
        if c.mode.get() == MODE_SIM {
            c.in_hook.set(true);
            crate::sim::slow_tick(c, site);
            c.in_hook.set(false);
        }
    });
}

/// the hook installed through `verif_hooks::set_thread_hook`
pub fn source_hook(site: Site) {
    on_tick(site as u64 + 1, site as usize);
}

#[no_mangle]
pub unsafe extern "C" fn __sanitizer_cov_trace_pc_guard(guard: *mut u32) {
    on_tick(0x1000 + (*guard) as u64, BBLOCK);
}

#[no_mangle]
pub unsafe extern "C" fn __sanitizer_cov_trace_pc_guard_init(start: *mut u32, stop: *mut u32) {
    let mut p = start;
    while p < stop {
        if *p == 0 {
            *p = BB_GUARDS.fetch_add(1, Ordering::Relaxed) + 1;
        }
        p = p.add(1);
    }
}

// ---------------------------------------------------------------------------
// memory events: which words did another caller thread touch?

const TABLE_BITS: usize = 19;
const TABLE_SIZE: usize = 1 << TABLE_BITS;
/// stop inserting new words beyond this load (the table must stay exact: a lossy table would make the hint
/// depend on absolute addresses, i.e. on the process's allocation history, and break replay)
const TABLE_MAX_LOAD: usize = TABLE_SIZE / 2;
static mut TABLE_USED: usize = 0;

#[derive(Clone, Copy)]
struct Slot {
    key: u64,     // word address + 1 (0 = empty)
    writer: u8,   // thread + 1 of the last writer (0 = none)
    readers: u32, // threads that read since the last write
}

// Only the thread that holds the baton touches the table; the baton hand-off orders the accesses.
static mut TABLE: [Slot; TABLE_SIZE] = [Slot { key: 0, writer: 0, readers: 0 }; TABLE_SIZE];

#[inline(always)]
fn on_mem(addr: usize, store: bool) {
    // (1) in race-directed runs: is this an access to a word another caller thread touched? If so the tick
    //     counted below is a decision point labelled `before_shared_access` (the access has not executed yet).
    let _ = T.try_with(|c| {
        if !c.track_mem.get() || !c.in_call.get() || c.in_hook.get() {
            return;
        }
        if addr >= c.stack_lo.get() && addr < c.stack_hi.get() {
            return;
        }
        let me = c.me.get();
        let word = (addr >> 3) as u64 + 1;
        let mut i = (word.wrapping_mul(0x9E37_79B9_7F4A_7C15) >> (64 - TABLE_BITS)) as usize;
        let bit = 1u32 << (me as u32 & 31);
        let mut shared = false;
        unsafe {
            let table = &mut *std::ptr::addr_of_mut!(TABLE);
            loop {
                let s = &mut table[i];
                if s.key == word {
                    if store {
                        shared = (s.writer != 0 && s.writer != me as u8 + 1) || (s.readers & !bit) != 0;
                        s.writer = me as u8 + 1;
                        s.readers = 0;
                    } else {
                        shared = s.writer != 0 && s.writer != me as u8 + 1;
                        s.readers |= bit;
                    }
                    break;
                }
                if s.key == 0 {
                    let used = std::ptr::addr_of_mut!(TABLE_USED);
                    if *used < TABLE_MAX_LOAD {
                        *used += 1;
                        *s = Slot { key: word, writer: if store { me as u8 + 1 } else { 0 }, readers: if store { 0 } else { bit } };
                    }
                    break;
                }
                i = (i + 1) & (TABLE_SIZE - 1);
            }
        }
        if shared {
            c.shared_hits.set(c.shared_hits.get() + 1);
            c.pending_shared.set(true);
            c.wake.set(0);
        }
    });
    // (2) every load / store of the library crates is a tick: two accesses inside one basic block can be
    //     separated by a context switch (instruction granularity with respect to memory)
    on_tick(if store { 0x2001 } else { 0x2000 }, MEMACC);
}

/// A block handed out by the allocator starts a new life: whatever thread touched those addresses before is
/// irrelevant. Without this, "shared" would depend on which freed chunk malloc happens to recycle, i.e. on the
/// allocation history the process inherited from its parent, and a seed would not replay.
#[inline(always)]
fn on_alloc(p: *mut u8, size: usize) {
    if p.is_null() {
        return;
    }
    let _ = T.try_with(|c| {
        if !c.track_mem.get() || !c.in_call.get() || c.in_hook.get() {
            return;
        }
        let first = (p as usize) >> 3;
        let last = (p as usize + size.max(1) - 1) >> 3;
        unsafe {
            let table = &mut *std::ptr::addr_of_mut!(TABLE);
            for w in first..=last {
                let word = w as u64 + 1;
                let mut i = (word.wrapping_mul(0x9E37_79B9_7F4A_7C15) >> (64 - TABLE_BITS)) as usize;
                loop {
                    let s = &mut table[i];
                    if s.key == word {
                        s.writer = 0;
                        s.readers = 0;
                        break;
                    }
                    if s.key == 0 {
                        break;
                    }
                    i = (i + 1) & (TABLE_SIZE - 1);
                }
            }
        }
    });
}

pub struct TrackingAlloc;

unsafe impl std::alloc::GlobalAlloc for TrackingAlloc {
    unsafe fn alloc(&self, l: std::alloc::Layout) -> *mut u8 {
        let p = std::alloc::System.alloc(l);
        on_alloc(p, l.size());
        p
    }
    unsafe fn alloc_zeroed(&self, l: std::alloc::Layout) -> *mut u8 {
        let p = std::alloc::System.alloc_zeroed(l);
        on_alloc(p, l.size());
        p
    }
    unsafe fn dealloc(&self, p: *mut u8, l: std::alloc::Layout) {
        std::alloc::System.dealloc(p, l)
    }
    unsafe fn realloc(&self, p: *mut u8, l: std::alloc::Layout, new_size: usize) -> *mut u8 {
        let q = std::alloc::System.realloc(p, l, new_size);
        if q != p {
            on_alloc(q, new_size);
        } else if new_size > l.size() {
            on_alloc(q.add(l.size()), new_size - l.size());
        }
        q
    }
}

#[global_allocator]
static GLOBAL: TrackingAlloc = TrackingAlloc;

macro_rules! mem_cb {
    ($store:expr; $($n:ident),*) => { $(
        #[no_mangle]
        pub unsafe extern "C" fn $n(p: *const u8) { on_mem(p as usize, $store); }
    )* };
}
mem_cb!(false; __sanitizer_cov_load1, __sanitizer_cov_load2, __sanitizer_cov_load4, __sanitizer_cov_load8, __sanitizer_cov_load16);
mem_cb!(true; __sanitizer_cov_store1, __sanitizer_cov_store2, __sanitizer_cov_store4, __sanitizer_cov_store8, __sanitizer_cov_store16);

/// record the calling thread's exact stack mapping (accesses to the own stack, and to the thread's static
/// TLS block, which glibc places inside that mapping, are never shared)
pub fn note_stack(c: &TickCtx, _stack_bytes: usize) {
    unsafe {
        let mut attr: libc::pthread_attr_t = std::mem::zeroed();
        if libc::pthread_getattr_np(libc::pthread_self(), &mut attr) == 0 {
            let mut addr: *mut libc::c_void = std::ptr::null_mut();
            let mut size: libc::size_t = 0;
            if libc::pthread_attr_getstack(&attr, &mut addr, &mut size) == 0 {
                c.stack_lo.set(addr as usize);
                c.stack_hi.set(addr as usize + size);
            }
            libc::pthread_attr_destroy(&mut attr);
        }
    }
}

pub fn begin_call(c: &TickCtx, call_no: u32) {
    c.call_no.set(call_no);
    c.ticks.set(0);
    c.synced.set(0);
    c.trace.set(0xcbf2_9ce4_8422_2325);
    c.pending_shared.set(false);
    c.pending_after.set(false);
}

// ---------------------------------------------------------------------------
// `syscall()` — the libc function Rust's std uses for futex operations. Defining it in the executable makes
// std's (statically linked) references resolve here. Everything is forwarded to the kernel unchanged, except
// futex waits / wakes issued by a caller thread from inside a library call during a simulated run: those are
// handled by the simulator, so that a thread that would block on a lock held by a parked thread is parked by
// the scheduler (a decision point like any other) instead of stalling the run.
#[cfg(all(target_os = "linux", target_arch = "x86_64"))]
#[no_mangle]
pub unsafe extern "C" fn syscall(
    num: libc::c_long,
    a1: libc::c_long,
    a2: libc::c_long,
    a3: libc::c_long,
    a4: libc::c_long,
    a5: libc::c_long,
    a6: libc::c_long,
) -> libc::c_long {
    if num == libc::SYS_futex {
        if let Some(r) = crate::sim::intercept_futex(a1 as usize, a2 as i32, a3 as u32, a4 as *const libc::timespec) {
            return r as libc::c_long;
        }
    }
    let ret: libc::c_long;
    core::arch::asm!(
        "syscall",
        inlateout("rax") num => ret,
        in("rdi") a1,
        in("rsi") a2,
        in("rdx") a3,
        in("r10") a4,
        in("r8") a5,
        in("r9") a6,
        lateout("rcx") _,
        lateout("r11") _,
        options(nostack)
    );
    if ret < 0 && ret >= -4095 {
        *libc::__errno_location() = (-ret) as i32;
        return -1;
    }
    ret
}

// ---------------------------------------------------------------------------
// `clock_gettime()` — the libc function Rust's std uses for Instant::now / SystemTime::now. Outside a simulated
// (or isolated) library call it is the real clock. Inside one, the wall and monotonic clocks read the run's
// VIRTUAL time: a fixed base, +1 ns per read, plus the clock jumps the workload injects between calls (fault
// kind F8). The library under test reads no clock today; a change that starts to (a cache with an expiry, a
// time-based seed) gets a deterministic, replayable and fault-injectable clock instead of an uncontrolled one.
#[cfg(all(target_os = "linux", target_arch = "x86_64"))]
#[no_mangle]
pub unsafe extern "C" fn clock_gettime(clk: libc::clockid_t, ts: *mut libc::timespec) -> libc::c_int {
    let is_real = clk == libc::CLOCK_REALTIME || clk == libc::CLOCK_REALTIME_COARSE || clk == libc::CLOCK_TAI;
    let is_mono = clk == libc::CLOCK_MONOTONIC || clk == libc::CLOCK_MONOTONIC_RAW || clk == libc::CLOCK_MONOTONIC_COARSE || clk == libc::CLOCK_BOOTTIME;
    if (is_real || is_mono) && !ts.is_null() {
        if let Some(ns) = crate::sim::virtual_clock(is_real) {
            (*ts).tv_sec = (ns / 1_000_000_000) as libc::time_t;
            (*ts).tv_nsec = (ns % 1_000_000_000) as libc::c_long;
            return 0;
        }
    }
    let ret: libc::c_long;
    core::arch::asm!(
        "syscall",
        inlateout("rax") libc::SYS_clock_gettime => ret,
        in("rdi") clk as libc::c_long,
        in("rsi") ts,
        lateout("rcx") _,
        lateout("r11") _,
        options(nostack)
    );
    if ret < 0 {
        *libc::__errno_location() = (-ret) as i32;
        return -1;
    }
    0
}

// ---------------------------------------------------------------------------
// Threads and timers of the library itself. A thread the library creates from inside a call during a simulated
// run is adopted by the scheduler: it registers, parks, and from then on runs only while it holds the baton, with
// the same decision points as a caller thread. `nanosleep` / `clock_nanosleep` / timed futex waits issued inside
// the library are timed waits in VIRTUAL time: the scheduler decides when a timer fires (and virtual time then
// moves to its deadline); `sched_yield` is a decision point that prefers another thread. Outside a simulated run
// (harness threads, the isolated oracle evaluation) all of these are the real thing.

type StartFn = extern "C" fn(*mut libc::c_void) -> *mut libc::c_void;

struct HelperStart {
    start: StartFn,
    arg: *mut libc::c_void,
    id: usize,
}

extern "C" fn helper_tramp(p: *mut libc::c_void) -> *mut libc::c_void {
    let b = unsafe { Box::from_raw(p as *mut HelperStart) };
    let mut ret: *mut libc::c_void = std::ptr::null_mut();
    let (start, arg, id) = (b.start, b.arg, b.id);
    drop(b);
    crate::sim::helper_main(id, &mut || {
        ret = start(arg);
    });
    ret
}

#[cfg(all(target_os = "linux", target_arch = "x86_64"))]
#[no_mangle]
pub unsafe extern "C" fn pthread_create(
    thread: *mut libc::pthread_t,
    attr: *const libc::pthread_attr_t,
    start: StartFn,
    arg: *mut libc::c_void,
) -> libc::c_int {
    static REAL: std::sync::atomic::AtomicUsize = std::sync::atomic::AtomicUsize::new(0);
    let mut real = REAL.load(Ordering::Relaxed);
    if real == 0 {
        real = libc::dlsym(libc::RTLD_NEXT, b"pthread_create\0".as_ptr() as *const libc::c_char) as usize;
        REAL.store(real, Ordering::Relaxed);
    }
    if real == 0 {
        return libc::EAGAIN;
    }
    let realf: unsafe extern "C" fn(*mut libc::pthread_t, *const libc::pthread_attr_t, StartFn, *mut libc::c_void) -> libc::c_int = std::mem::transmute(real);
    if let Some(id) = crate::sim::adopt_begin() {
        let b = Box::into_raw(Box::new(HelperStart { start, arg, id }));
        let r = realf(thread, attr, helper_tramp, b as *mut libc::c_void);
        if r != 0 {
            drop(Box::from_raw(b));
        }
        crate::sim::adopt_end(id, r == 0, if r == 0 && !thread.is_null() { *thread as usize } else { 0 });
        return r;
    }
    realf(thread, attr, start, arg)
}

#[cfg(all(target_os = "linux", target_arch = "x86_64"))]
#[no_mangle]
pub unsafe extern "C" fn pthread_join(thread: libc::pthread_t, retval: *mut *mut libc::c_void) -> libc::c_int {
    static REAL: std::sync::atomic::AtomicUsize = std::sync::atomic::AtomicUsize::new(0);
    let mut real = REAL.load(Ordering::Relaxed);
    if real == 0 {
        real = libc::dlsym(libc::RTLD_NEXT, b"pthread_join\0".as_ptr() as *const libc::c_char) as usize;
        REAL.store(real, Ordering::Relaxed);
    }
    if real == 0 {
        return libc::EINVAL;
    }
    let realf: unsafe extern "C" fn(libc::pthread_t, *mut *mut libc::c_void) -> libc::c_int = std::mem::transmute(real);
    crate::sim::intercept_join(thread as usize);
    realf(thread, retval)
}

#[cfg(all(target_os = "linux", target_arch = "x86_64"))]
#[no_mangle]
pub unsafe extern "C" fn nanosleep(req: *const libc::timespec, rem: *mut libc::timespec) -> libc::c_int {
    if !req.is_null() {
        let ns = ((*req).tv_sec as i64).saturating_mul(1_000_000_000).saturating_add((*req).tv_nsec as i64);
        if crate::sim::intercept_sleep(ns, None) {
            return 0;
        }
    }
    let ret: libc::c_long;
    core::arch::asm!("syscall", inlateout("rax") libc::SYS_nanosleep => ret, in("rdi") req, in("rsi") rem, lateout("rcx") _, lateout("r11") _, options(nostack));
    if ret < 0 {
        *libc::__errno_location() = (-ret) as i32;
        return -1;
    }
    0
}

#[cfg(all(target_os = "linux", target_arch = "x86_64"))]
#[no_mangle]
pub unsafe extern "C" fn clock_nanosleep(clk: libc::clockid_t, flags: libc::c_int, req: *const libc::timespec, rem: *mut libc::timespec) -> libc::c_int {
    if !req.is_null() {
        let ns = ((*req).tv_sec as i64).saturating_mul(1_000_000_000).saturating_add((*req).tv_nsec as i64);
        let abs = if flags & libc::TIMER_ABSTIME != 0 { Some(clk == libc::CLOCK_REALTIME) } else { None };
        if crate::sim::intercept_sleep(ns, abs) {
            return 0;
        }
    }
    let ret: libc::c_long;
    core::arch::asm!("syscall", inlateout("rax") libc::SYS_clock_nanosleep => ret, in("rdi") clk as libc::c_long, in("rsi") flags as libc::c_long, in("rdx") req, in("r10") rem, lateout("rcx") _, lateout("r11") _, options(nostack));
    // clock_nanosleep returns the error number itself
    (-ret) as libc::c_int
}

#[cfg(all(target_os = "linux", target_arch = "x86_64"))]
#[no_mangle]
pub unsafe extern "C" fn sched_yield() -> libc::c_int {
    if crate::sim::intercept_yield() {
        return 0;
    }
    let ret: libc::c_long;
    core::arch::asm!("syscall", inlateout("rax") libc::SYS_sched_yield => ret, lateout("rcx") _, lateout("r11") _, options(nostack));
    ret as libc::c_int
}

// ---------------------------------------------------------------------------
// `getrandom()` — where std's `RandomState` (HashMap / HashSet keys) and anything else in the library would get
// entropy. On a thread of a simulated run the bytes come from the run's seed (per thread, per request), so that
// hash-table layouts, and with them tick counts and schedules, replay exactly. Everywhere else (the isolated
// oracle evaluations included, which therefore still differ from each other and from the simulated run if a
// result depends on it) it is the kernel's.
#[cfg(all(target_os = "linux", target_arch = "x86_64"))]
#[no_mangle]
pub unsafe extern "C" fn getrandom(buf: *mut libc::c_void, len: libc::size_t, flags: libc::c_uint) -> libc::ssize_t {
    if !buf.is_null() {
        let seeded = T.try_with(|c| {
            if c.mode.get() != MODE_SIM {
                return false;
            }
            let seed = match crate::sim::run_entropy() {
                Some(s) => s,
                None => return false,
            };
            let k = c.rand_reads.get();
            c.rand_reads.set(k + 1);
            let mut x = crate::types::mix(seed ^ 0x656e_7472_6f70_79, ((c.me.get() as u64) << 48) | ((c.call_no.get() as u64) << 16) | (k & 0xffff));
            let out = std::slice::from_raw_parts_mut(buf as *mut u8, len);
            for chunk in out.chunks_mut(8) {
                x = crate::types::mix(x, 0x9E37_79B9_7F4A_7C15);
                let b = x.to_le_bytes();
                chunk.copy_from_slice(&b[..chunk.len()]);
            }
            true
        });
        if seeded == Ok(true) {
            return len as libc::ssize_t;
        }
    }
    let ret: libc::c_long;
    core::arch::asm!("syscall", inlateout("rax") libc::SYS_getrandom => ret, in("rdi") buf, in("rsi") len, in("rdx") flags as libc::c_long, lateout("rcx") _, lateout("r11") _, options(nostack));
    if ret < 0 {
        *libc::__errno_location() = (-ret) as i32;
        return -1;
    }
    ret as libc::ssize_t
}
