//! Calls, placeholders, outcomes: the vocabulary shared by generator, oracle and simulator.

use num_complex::Complex;
use rust_decimal::Decimal;
use serde_json::{json, Value};
use string_calculator::{eval_complex, eval_decimal, eval_f64, eval_i64, eval_number, Number, ParseError};

#[derive(Clone, Copy, Debug, PartialEq, Eq, PartialOrd, Ord, Hash)]
pub enum Ev {
    F64 = 0,
    I64 = 1,
    Dec = 2,
    Cx = 3,
    Num = 4,
}

pub const ALL_EV: [Ev; 5] = [Ev::F64, Ev::I64, Ev::Dec, Ev::Cx, Ev::Num];

impl Ev {
    pub fn name(self) -> &'static str {
        match self {
            Ev::F64 => "f64",
            Ev::I64 => "i64",
            Ev::Dec => "decimal",
            Ev::Cx => "complex",
            Ev::Num => "number",
        }
    }
    pub fn from_name(s: &str) -> Option<Ev> {
        ALL_EV.iter().copied().find(|e| e.name() == s)
    }
}

/// A placeholder value, stored as bits so that NaN payloads, -0.0 and Decimal scale survive.
#[derive(Clone, Copy, Debug, PartialEq, Eq, PartialOrd, Ord, Hash)]
pub enum Ph {
    F64(u64),
    I64(i64),
    Dec([u8; 16]),
    Cx(u64, u64),
    NumI(i64),
    NumF(u64),
}

impl Ph {
    pub fn ev_ok(&self, ev: Ev) -> bool {
        matches!(
            (self, ev),
            (Ph::F64(_), Ev::F64)
                | (Ph::I64(_), Ev::I64)
                | (Ph::Dec(_), Ev::Dec)
                | (Ph::Cx(..), Ev::Cx)
                | (Ph::NumI(_), Ev::Num)
                | (Ph::NumF(_), Ev::Num)
        )
    }
    pub fn is_default(&self) -> bool {
        match self {
            Ph::F64(b) => *b == 0,
            Ph::I64(v) => *v == 0,
            Ph::Dec(b) => Decimal::deserialize(*b) == Decimal::ZERO && Decimal::deserialize(*b).scale() == 0,
            Ph::Cx(a, b) => *a == 0 && *b == 0,
            Ph::NumI(v) => *v == 0,
            Ph::NumF(b) => *b == 0,
        }
    }
    pub fn encode(&self) -> String {
        match self {
            Ph::F64(b) => format!("f64:0x{:016x}", b),
            Ph::I64(v) => format!("i64:{}", v),
            Ph::Dec(b) => format!("dec:{}", hex(b)),
            Ph::Cx(a, b) => format!("cx:0x{:016x},0x{:016x}", a, b),
            Ph::NumI(v) => format!("num:i:{}", v),
            Ph::NumF(b) => format!("num:f:0x{:016x}", b),
        }
    }
    pub fn decode(s: &str) -> Option<Ph> {
        let hx = |t: &str| u64::from_str_radix(t.trim_start_matches("0x"), 16).ok();
        if let Some(r) = s.strip_prefix("f64:") {
            return Some(Ph::F64(hx(r)?));
        }
        if let Some(r) = s.strip_prefix("i64:") {
            return Some(Ph::I64(r.parse().ok()?));
        }
        if let Some(r) = s.strip_prefix("dec:") {
            let v = unhex(r)?;
            if v.len() != 16 {
                return None;
            }
            let mut b = [0u8; 16];
            b.copy_from_slice(&v);
            return Some(Ph::Dec(b));
        }
        if let Some(r) = s.strip_prefix("cx:") {
            let mut it = r.split(',');
            return Some(Ph::Cx(hx(it.next()?)?, hx(it.next()?)?));
        }
        if let Some(r) = s.strip_prefix("num:i:") {
            return Some(Ph::NumI(r.parse().ok()?));
        }
        if let Some(r) = s.strip_prefix("num:f:") {
            return Some(Ph::NumF(hx(r)?));
        }
        None
    }
    /// human-readable form, informational only (never compared)
    pub fn display(&self) -> String {
        match self {
            Ph::F64(b) => format!("{:?}", f64::from_bits(*b)),
            Ph::I64(v) => format!("{}", v),
            Ph::Dec(b) => {
                let d = Decimal::deserialize(*b);
                format!("{} (scale {})", d, d.scale())
            }
            Ph::Cx(a, b) => format!("{:?}+{:?}i", f64::from_bits(*a), f64::from_bits(*b)),
            Ph::NumI(v) => format!("Integer({})", v),
            Ph::NumF(b) => format!("Float({:?})", f64::from_bits(*b)),
        }
    }
}

pub fn hex(b: &[u8]) -> String {
    let mut s = String::with_capacity(b.len() * 2);
    for x in b {
        s.push_str(&format!("{:02x}", x));
    }
    s
}
pub fn unhex(s: &str) -> Option<Vec<u8>> {
    if s.len() % 2 != 0 {
        return None;
    }
    (0..s.len() / 2).map(|i| u8::from_str_radix(s.get(2 * i..2 * i + 2)?, 16).ok()).collect()
}

#[derive(Clone, Debug, PartialEq, Eq, PartialOrd, Ord, Hash)]
pub struct Call {
    pub ev: Ev,
    pub expr: String,
    pub ph: Ph,
}

impl Call {
    pub fn to_json(&self) -> Value {
        json!({"ev": self.ev.name(), "expr": self.expr, "ph": self.ph.encode(), "ph_display": self.ph.display()})
    }
    pub fn from_json(v: &Value) -> Option<Call> {
        let ev = Ev::from_name(v.get("ev")?.as_str()?)?;
        let expr = v.get("expr")?.as_str()?.to_string();
        let ph = Ph::decode(v.get("ph")?.as_str()?)?;
        if !ph.ev_ok(ev) {
            return None;
        }
        Some(Call { ev, expr, ph })
    }
}

/// What a call did, in a canonical bit-exact encoding. Two outcomes are the same iff the strings are equal.
#[derive(Clone, Debug, PartialEq, Eq, PartialOrd, Ord, Hash)]
pub enum Outcome {
    /// `Ok(value)`; the string is the value's bit pattern
    Ok(String),
    /// `Err(ParseError::<variant>(message))`
    Err(String, String),
    /// the library panicked; payload message only (no location, no thread name)
    Panic(String),
}

impl Outcome {
    pub fn encode(&self) -> String {
        match self {
            Outcome::Ok(s) => format!("ok {}", s),
            Outcome::Err(v, m) => format!("err {} {}", v, m),
            Outcome::Panic(m) => format!("panic {}", m),
        }
    }
    pub fn decode(s: &str) -> Option<Outcome> {
        if let Some(r) = s.strip_prefix("ok ") {
            return Some(Outcome::Ok(r.to_string()));
        }
        if let Some(r) = s.strip_prefix("err ") {
            let (v, m) = r.split_once(' ').unwrap_or((r, ""));
            return Some(Outcome::Err(v.to_string(), m.to_string()));
        }
        if let Some(r) = s.strip_prefix("panic ") {
            return Some(Outcome::Panic(r.to_string()));
        }
        if s == "panic" {
            return Some(Outcome::Panic(String::new()));
        }
        None
    }
    /// hash of the outcome, computed without allocating
    pub fn hash64(&self) -> u64 {
        let mut h = Hasher64::new();
        match self {
            Outcome::Ok(s) => {
                h.u64(1);
                h.bytes(s.as_bytes());
            }
            Outcome::Err(v, m) => {
                h.u64(2);
                h.bytes(v.as_bytes());
                h.bytes(m.as_bytes());
            }
            Outcome::Panic(m) => {
                h.u64(3);
                h.bytes(m.as_bytes());
            }
        }
        h.finish()
    }
    pub fn class(&self) -> &'static str {
        match self {
            Outcome::Ok(_) => "ok",
            Outcome::Err(..) => "err",
            Outcome::Panic(_) => "panic",
        }
    }
}

fn enc_err(e: ParseError) -> Outcome {
    // the error as the caller sees it: variant, message, and what `Display` and `Debug` make of it
    let shown = format!(" | display: {} | debug: {:?}", e, e);
    match e {
        ParseError::UnableToParse(m) => Outcome::Err("UnableToParse".into(), m + &shown),
        ParseError::InvalidOperator(m) => Outcome::Err("InvalidOperator".into(), m + &shown),
    }
}

fn enc_num(n: &Number) -> String {
    match n {
        Number::Float(f) => format!("number Float 0x{:016x}", f.to_bits()),
        Number::Integer(i) => format!("number Integer {}", i),
    }
}

/// Perform the call against the real library. Panics of the library are caught and become an outcome.
pub fn exec_call(c: &Call) -> Outcome {
    let r = std::panic::catch_unwind(std::panic::AssertUnwindSafe(|| -> Outcome {
        let expr = c.expr.clone();
        match (c.ev, c.ph) {
            (Ev::F64, Ph::F64(b)) => match eval_f64(expr, f64::from_bits(b)) {
                Ok(v) => Outcome::Ok(format!("f64 0x{:016x}", v.to_bits())),
                Err(e) => enc_err(e),
            },
            (Ev::I64, Ph::I64(p)) => match eval_i64(expr, p) {
                Ok(v) => Outcome::Ok(format!("i64 {}", v)),
                Err(e) => enc_err(e),
            },
            (Ev::Dec, Ph::Dec(b)) => match eval_decimal(expr, Decimal::deserialize(b)) {
                Ok(v) => Outcome::Ok(format!("decimal {}", hex(&v.serialize()))),
                Err(e) => enc_err(e),
            },
            (Ev::Cx, Ph::Cx(re, im)) => {
                match eval_complex(expr, Complex::new(f64::from_bits(re), f64::from_bits(im))) {
                    Ok(v) => Outcome::Ok(format!("complex 0x{:016x} 0x{:016x}", v.re.to_bits(), v.im.to_bits())),
                    Err(e) => enc_err(e),
                }
            }
            (Ev::Num, Ph::NumI(p)) => match eval_number(expr, Number::Integer(p)) {
                Ok(v) => Outcome::Ok(enc_num(&v)),
                Err(e) => enc_err(e),
            },
            (Ev::Num, Ph::NumF(b)) => match eval_number(expr, Number::Float(f64::from_bits(b))) {
                Ok(v) => Outcome::Ok(enc_num(&v)),
                Err(e) => enc_err(e),
            },
            _ => Outcome::Panic("harness: placeholder type does not match evaluator".into()),
        }
    }));
    match r {
        Ok(o) => o,
        Err(p) => {
            let msg = if let Some(s) = p.downcast_ref::<&str>() {
                s.to_string()
            } else if let Some(s) = p.downcast_ref::<String>() {
                s.clone()
            } else {
                "<non-string payload>".to_string()
            };
            Outcome::Panic(msg)
        }
    }
}

// ---------------------------------------------------------------------------
// PRNG and hashing: no external crates, fully specified, so one integer decides everything.

pub fn splitmix64(x: u64) -> u64 {
    let mut z = x.wrapping_add(0x9E37_79B9_7F4A_7C15);
    z = (z ^ (z >> 30)).wrapping_mul(0xBF58_476D_1CE4_E5B9);
    z = (z ^ (z >> 27)).wrapping_mul(0x94D0_49BB_1331_11EB);
    z ^ (z >> 31)
}

pub fn mix(a: u64, b: u64) -> u64 {
    splitmix64(a ^ splitmix64(b.wrapping_add(0x1234_5678_9ABC_DEF1)))
}

/// xoshiro256**, seeded through splitmix64.
#[derive(Clone, Debug)]
pub struct Rng {
    s: [u64; 4],
}

impl Rng {
    pub fn new(seed: u64) -> Rng {
        let mut x = seed;
        let mut s = [0u64; 4];
        for v in s.iter_mut() {
            x = x.wrapping_add(0x9E37_79B9_7F4A_7C15);
            *v = splitmix64(x);
        }
        Rng { s }
    }
    pub fn next(&mut self) -> u64 {
        let r = self.s[1].wrapping_mul(5).rotate_left(7).wrapping_mul(9);
        let t = self.s[1] << 17;
        self.s[2] ^= self.s[0];
        self.s[3] ^= self.s[1];
        self.s[1] ^= self.s[2];
        self.s[0] ^= self.s[3];
        self.s[2] ^= t;
        self.s[3] = self.s[3].rotate_left(45);
        r
    }
    /// uniform in 0..n (n > 0)
    pub fn below(&mut self, n: usize) -> usize {
        debug_assert!(n > 0);
        ((self.next() >> 11) as u128 * n as u128 >> 53) as usize
    }
    pub fn range(&mut self, lo: usize, hi_incl: usize) -> usize {
        lo + self.below(hi_incl - lo + 1)
    }
    pub fn unit(&mut self) -> f64 {
        (self.next() >> 11) as f64 / (1u64 << 53) as f64
    }
    pub fn chance(&mut self, p: f64) -> bool {
        self.unit() < p
    }
    pub fn pick<'a, T>(&mut self, v: &'a [T]) -> &'a T {
        &v[self.below(v.len())]
    }
    pub fn shuffle<T>(&mut self, v: &mut [T]) {
        for i in (1..v.len()).rev() {
            let j = self.below(i + 1);
            v.swap(i, j);
        }
    }
}

/// FNV-1a style running hash folded through splitmix: cheap and order-sensitive.
#[derive(Clone, Copy, Debug)]
pub struct Hasher64(pub u64);
impl Hasher64 {
    pub fn new() -> Self {
        Hasher64(0xcbf2_9ce4_8422_2325)
    }
    #[inline]
    pub fn u64(&mut self, x: u64) {
        self.0 = (self.0 ^ x).wrapping_mul(0x0000_0100_0000_01B3).rotate_left(23) ^ (x >> 29);
    }
    pub fn bytes(&mut self, b: &[u8]) {
        for c in b.chunks(8) {
            let mut w = [0u8; 8];
            w[..c.len()].copy_from_slice(c);
            self.u64(u64::from_le_bytes(w));
        }
        self.u64(b.len() as u64);
    }
    pub fn finish(&self) -> u64 {
        splitmix64(self.0)
    }
}

pub fn hash_str(s: &str) -> u64 {
    let mut h = Hasher64::new();
    h.bytes(s.as_bytes());
    h.finish()
}
