//! Self-contained item payloads sent from the driver to the zygote workers.
//!  'I' + cap:u64 + Call JSON                      -> isolated evaluation
//!  'R' + JSON {entries:[...], spec:{...}}         -> one simulated run over a private mini pool

use crate::gen::{Entry, Pool};
use crate::sim::{Policy, RunSpec, Sw};
use crate::types::*;
use serde_json::{json, Value};
use std::collections::BTreeMap;

pub fn encode_iso(call: &Call, cap: u64) -> Vec<u8> {
    let mut v = vec![b'I'];
    v.extend_from_slice(&cap.to_le_bytes());
    v.extend_from_slice(call.to_json().to_string().as_bytes());
    v
}

pub fn decode_iso(p: &[u8]) -> Option<(Call, u64)> {
    if p.len() < 9 || p[0] != b'I' {
        return None;
    }
    let mut c = [0u8; 8];
    c.copy_from_slice(&p[1..9]);
    let v: Value = serde_json::from_slice(&p[9..]).ok()?;
    Some((Call::from_json(&v)?, u64::from_le_bytes(c)))
}

fn policy_json(p: &Policy) -> Value {
    match p {
        Policy::Serial => json!({"k": "serial"}),
        Policy::CallAtomic { q } => json!({"k": "call_atomic", "q": q}),
        Policy::RandomWalk { p } => json!({"k": "random_walk", "p": p}),
        Policy::Pct { k } => json!({"k": "pct", "n": k}),
        Policy::Targeted { site, p } => json!({"k": "targeted", "site": site, "p": p}),
        Policy::RaceDirected { p, q } => json!({"k": "race_directed", "p": p, "q": q}),
        Policy::Replay => json!({"k": "replay"}),
    }
}

fn policy_from(v: &Value) -> Option<Policy> {
    let f = |k: &str| v.get(k).and_then(|x| x.as_f64());
    Some(match v.get("k")?.as_str()? {
        "serial" => Policy::Serial,
        "call_atomic" => Policy::CallAtomic { q: f("q")? },
        "random_walk" => Policy::RandomWalk { p: f("p")? },
        "pct" => Policy::Pct { k: v.get("n")?.as_u64()? as usize },
        "targeted" => Policy::Targeted { site: v.get("site")?.as_u64()? as usize, p: f("p")? },
        "race_directed" => Policy::RaceDirected { p: f("p")?, q: f("q")? },
        "replay" => Policy::Replay,
        _ => return None,
    })
}

/// The run's payload: only the pool entries the run uses, renumbered densely.
pub fn encode_run(pool: &Pool, spec: &RunSpec) -> Vec<u8> {
    let mut local: BTreeMap<u32, u32> = BTreeMap::new();
    let mut expr_ids: BTreeMap<u32, u32> = BTreeMap::new();
    let mut text_ids: BTreeMap<u32, u32> = BTreeMap::new();
    let mut entries: Vec<Value> = Vec::new();
    // every phase of a chained run (process incarnations sharing one disk) uses the same mini-pool
    let mut specs_json: Vec<Value> = Vec::new();
    let mut cur: Option<&RunSpec> = Some(spec);
    while let Some(sp) = cur {
        let mut clients: Vec<Vec<u32>> = Vec::with_capacity(sp.clients.len());
        for c in &sp.clients {
            let mut cl = Vec::with_capacity(c.len());
            for e in c {
                let li = match local.get(e) {
                    Some(i) => *i,
                    None => {
                        let i = entries.len() as u32;
                        let en = &pool.entries[*e as usize];
                        let nx = expr_ids.len() as u32;
                        let x = *expr_ids.entry(en.expr_id).or_insert(nx);
                        let nt = text_ids.len() as u32;
                        let t = *text_ids.entry(en.text_id).or_insert(nt);
                        entries.push(json!([en.call.ev.name(), en.call.expr, en.call.ph.encode(), en.oracle.encode(), en.ticks, en.trace.to_string(), x, t, en.sensitive]));
                        local.insert(*e, i);
                        i
                    }
                };
                cl.push(li);
            }
            clients.push(cl);
        }
        let sw: Vec<[u32; 4]> = sp.switches.iter().map(|s| [s.thread, s.call, s.tick, s.to]).collect();
        specs_json.push(json!({
            "seed": sp.seed.to_string(), "clients": clients, "churn": sp.churn, "policy": policy_json(&sp.policy), "start": sp.start,
            "switches": sw, "est": sp.est_steps, "trace": sp.want_trace, "jumps": sp.clock_jumps, "depths": sp.stack_depths, "cpus": sp.cpu_limits,
            "kill": sp.kill_step.to_string(), "iof": sp.io_fault.to_string(), "pwr": sp.power.to_string(),
        }));
        cur = sp.next.as_deref();
    }
    let v = json!({ "entries": entries, "specs": specs_json });
    let mut out = vec![b'R'];
    out.extend_from_slice(v.to_string().as_bytes());
    out
}

pub fn decode_run(p: &[u8]) -> Option<(Pool, RunSpec)> {
    if p.is_empty() || p[0] != b'R' {
        return None;
    }
    let v: Value = serde_json::from_slice(&p[1..]).ok()?;
    let mut pool = Pool::default();
    let mut max_x = 0u32;
    let mut max_t = 0u32;
    for e in v.get("entries")?.as_array()? {
        let a = e.as_array()?;
        let ev = Ev::from_name(a.first()?.as_str()?)?;
        let call = Call { ev, expr: a.get(1)?.as_str()?.to_string(), ph: Ph::decode(a.get(2)?.as_str()?)? };
        let x = a.get(6)?.as_u64()? as u32;
        let t = a.get(7)?.as_u64()? as u32;
        max_x = max_x.max(x);
        max_t = max_t.max(t);
        pool.entries.push(Entry {
            call,
            expr_id: x,
            origin: "wire",
            oracle: Outcome::decode(a.get(3)?.as_str()?)?,
            ticks: a.get(4)?.as_u64()? as u32,
            trace: a.get(5)?.as_str()?.parse().ok()?,
            sensitive: a.get(8)?.as_bool()?,
            text_id: t,
        });
    }
    pool.by_expr = vec![Vec::new(); max_x as usize + 1];
    for (i, e) in pool.entries.iter().enumerate() {
        pool.by_expr[e.expr_id as usize].push(i as u32);
    }
    pool.n_texts = max_t as usize + 1;
    let u32s = |x: &Value| -> Option<Vec<u32>> { x.as_array()?.iter().map(|y| y.as_u64().map(|z| z as u32)).collect() };
    let mut chain: Vec<RunSpec> = Vec::new();
    for s in v.get("specs")?.as_array()? {
        let clients: Vec<Vec<u32>> = s.get("clients")?.as_array()?.iter().map(u32s).collect::<Option<_>>()?;
        let churn: Vec<Vec<u32>> = s.get("churn")?.as_array()?.iter().map(u32s).collect::<Option<_>>()?;
        let switches: Vec<Sw> = s
            .get("switches")?
            .as_array()?
            .iter()
            .map(|q| {
                let a = u32s(q)?;
                if a.len() != 4 {
                    return None;
                }
                Some(Sw { thread: a[0], call: a[1], tick: a[2], to: a[3] })
            })
            .collect::<Option<_>>()?;
        let jumps: Vec<Vec<(u32, i64, i64)>> = s
            .get("jumps")?
            .as_array()?
            .iter()
            .map(|t| t.as_array().map(|a| a.iter().filter_map(|j| { let q = j.as_array()?; Some((q.first()?.as_u64()? as u32, q.get(1)?.as_i64()?, q.get(2)?.as_i64()?)) }).collect()))
            .collect::<Option<_>>()?;
        let depths: Vec<Vec<(u32, u32)>> = s
            .get("depths")?
            .as_array()?
            .iter()
            .map(|t| t.as_array().map(|a| a.iter().filter_map(|j| { let q = j.as_array()?; Some((q.first()?.as_u64()? as u32, q.get(1)?.as_u64()? as u32)) }).collect()))
            .collect::<Option<_>>()?;
        chain.push(RunSpec {
            seed: s.get("seed")?.as_str()?.parse().ok()?,
            clients,
            churn,
            policy: policy_from(s.get("policy")?)?,
            start: s.get("start")?.as_u64()? as u32,
            switches,
            est_steps: s.get("est")?.as_u64()?,
            want_trace: s.get("trace")?.as_bool()?,
            faults_enabled: Vec::new(),
            clock_jumps: jumps,
            stack_depths: depths,
            cpu_limits: u32s(s.get("cpus")?)?,
            kill_step: s.get("kill").and_then(|x| x.as_str()).and_then(|x| x.parse().ok()).unwrap_or(0),
            io_fault: s.get("iof").and_then(|x| x.as_str()).and_then(|x| x.parse().ok()).unwrap_or(0),
            power: s.get("pwr").and_then(|x| x.as_str()).and_then(|x| x.parse().ok()).unwrap_or(0),
            next: None,
        });
    }
    let mut spec: Option<RunSpec> = None;
    while let Some(mut sp) = chain.pop() {
        sp.next = spec.take().map(Box::new);
        spec = Some(sp);
    }
    Some((pool, spec?))
}

/// A run of several process incarnations ("phases") that share the item's private disk: each phase is a freshly
/// forked process (no memory survives, files do); the first phase whose record is not `ok` ends the run.
fn supervise(pool: &Pool, spec: &RunSpec) -> ! {
    let num = |v: &Value, k: &str| v.get(k).and_then(|x| x.as_u64()).unwrap_or(0);
    let mut before: Vec<Value> = Vec::new();
    let mut merged: Option<Value> = None;
    let mut hashes = crate::types::Hasher64::new();
    let mut cur: Option<&RunSpec> = Some(spec);
    let mut phase = 0u64;
    let mut kills = 0u64;
    while let Some(sp) = cur {
        let (bytes, exit) = crate::proc::run_item(|| crate::sim::run_child(pool, sp), std::time::Duration::from_secs(120));
        let mut rec: Value = match serde_json::from_slice(&bytes) {
            Ok(v) => v,
            Err(_) => {
                let msg = json!({"st": "crashed", "why": format!("phase {} ended without a record ({:?})", phase, exit)});
                crate::proc::item_finish(msg.to_string().as_bytes())
            }
        };
        rec["phase"] = json!(phase);
        if rec.get("st").and_then(|x| x.as_str()) != Some("ok") {
            rec["phases_before"] = Value::Array(before);
            crate::proc::item_finish(rec.to_string().as_bytes());
        }
        if rec.get("killed").and_then(|x| x.as_bool()) == Some(true) {
            kills += 1;
        }
        if sp.power != 0 && sp.next.is_some() {
            // the machine loses power after this incarnation: what was not synced may be gone
            rec["pl"] = json!(1);
            rec["plf"] = json!(crate::disk::power_loss(sp.power));
        }
        hashes.u64(u64::from_str_radix(rec.get("h").and_then(|x| x.as_str()).unwrap_or("0"), 16).unwrap_or(0));
        before.push(json!({"start": rec.get("start").cloned().unwrap_or(json!(0)), "switches": rec.get("switches").cloned().unwrap_or(json!([]))}));
        merged = Some(match merged.take() {
            None => rec,
            Some(mut m) => {
                for k in ["calls", "ticks", "bt", "shh", "fw", "rsc", "steps", "sw", "cr", "wd", "sens", "hl", "tmo", "slp", "yld", "jn", "fo", "fp", "fh", "pl", "plf", "iop", "us_spawn", "us_total"] {
                    m[k] = json!(num(&m, k) + num(&rec, k));
                }
                m["mi"] = json!(num(&m, "mi").max(num(&rec, "mi")));
                for k in ["f", "ps", "iof"] {
                    if let (Some(a), Some(b)) = (m.get(k).and_then(|x| x.as_array()).cloned(), rec.get(k).and_then(|x| x.as_array())) {
                        m[k] = Value::Array(a.iter().zip(b.iter()).map(|(x, y)| json!(x.as_u64().unwrap_or(0) + y.as_u64().unwrap_or(0))).collect());
                    }
                }
                if let (Some(mut a), Some(b)) = (m.get("pairs").and_then(|x| x.as_array()).cloned(), rec.get("pairs").and_then(|x| x.as_array())) {
                    a.extend(b.iter().cloned());
                    m["pairs"] = Value::Array(a);
                }
                m
            }
        });
        cur = sp.next.as_deref();
        phase += 1;
    }
    let mut m = merged.unwrap_or(json!({"st": "crashed", "why": "no phase"}));
    m["h"] = json!(format!("{:016x}", hashes.finish()));
    m["phases"] = json!(phase);
    m["kills"] = json!(kills);
    m["phase_traces"] = Value::Array(before);
    m.as_object_mut().map(|o| {
        o.remove("switches");
        o.remove("start");
    });
    crate::proc::item_finish(m.to_string().as_bytes())
}

/// What an item child runs.
pub fn item_entry(p: &[u8]) -> ! {
    match p.first() {
        Some(b'I') => match decode_iso(p) {
            Some((call, cap)) => {
                let out = crate::oracle::isolated_child(&call, cap);
                crate::proc::item_finish(&out)
            }
            None => crate::proc::item_finish(b"bad-iso-payload"),
        },
        Some(b'R') => match decode_run(p) {
            Some((pool, spec)) => {
                if spec.next.is_some() {
                    supervise(&pool, &spec)
                } else {
                    crate::sim::run_child(&pool, &spec)
                }
            }
            None => crate::proc::item_finish(b"{\"st\":\"crashed\",\"why\":\"bad run payload\"}"),
        },
        _ => crate::proc::item_finish(b"bad-payload"),
    }
}
