//! Self-contained item payloads sent from the driver to the zygote workers.
//!  'I' + cap:u64 + Call JSON                      -> isolated evaluation
//!  'R' + JSON {entries:[...], spec:{...}}         -> one simulated run over a private mini pool

use crate::gen::{Entry, Pool};
use crate::sim::{Policy, RunSpec, Sw};
use crate::types::*;
use serde_json::{json, Value};
use std::collections::BTreeMap;

pub fn encode_iso(call: &Call, cap: u64) -> Vec<u8> {
    let mut v = vec![b'I'];
    v.extend_from_slice(&cap.to_le_bytes());
    v.extend_from_slice(call.to_json().to_string().as_bytes());
    v
}

pub fn decode_iso(p: &[u8]) -> Option<(Call, u64)> {
    if p.len() < 9 || p[0] != b'I' {
        return None;
    }
    let mut c = [0u8; 8];
    c.copy_from_slice(&p[1..9]);
    let v: Value = serde_json::from_slice(&p[9..]).ok()?;
    Some((Call::from_json(&v)?, u64::from_le_bytes(c)))
}

fn policy_json(p: &Policy) -> Value {
    match p {
        Policy::Serial => json!({"k": "serial"}),
        Policy::CallAtomic { q } => json!({"k": "call_atomic", "q": q}),
        Policy::RandomWalk { p } => json!({"k": "random_walk", "p": p}),
        Policy::Pct { k } => json!({"k": "pct", "n": k}),
        Policy::Targeted { site, p } => json!({"k": "targeted", "site": site, "p": p}),
        Policy::RaceDirected { p, q } => json!({"k": "race_directed", "p": p, "q": q}),
        Policy::Replay => json!({"k": "replay"}),
    }
}

fn policy_from(v: &Value) -> Option<Policy> {
    let f = |k: &str| v.get(k).and_then(|x| x.as_f64());
    Some(match v.get("k")?.as_str()? {
        "serial" => Policy::Serial,
        "call_atomic" => Policy::CallAtomic { q: f("q")? },
        "random_walk" => Policy::RandomWalk { p: f("p")? },
        "pct" => Policy::Pct { k: v.get("n")?.as_u64()? as usize },
        "targeted" => Policy::Targeted { site: v.get("site")?.as_u64()? as usize, p: f("p")? },
        "race_directed" => Policy::RaceDirected { p: f("p")?, q: f("q")? },
        "replay" => Policy::Replay,
        _ => return None,
    })
}

/// The run's payload: only the pool entries the run uses, renumbered densely.
pub fn encode_run(pool: &Pool, spec: &RunSpec) -> Vec<u8> {
    let mut local: BTreeMap<u32, u32> = BTreeMap::new();
    let mut expr_ids: BTreeMap<u32, u32> = BTreeMap::new();
    let mut text_ids: BTreeMap<u32, u32> = BTreeMap::new();
    let mut entries: Vec<Value> = Vec::new();
    let mut clients: Vec<Vec<u32>> = Vec::with_capacity(spec.clients.len());
    for c in &spec.clients {
        let mut cl = Vec::with_capacity(c.len());
        for e in c {
            let li = match local.get(e) {
                Some(i) => *i,
                None => {
                    let i = entries.len() as u32;
                    let en = &pool.entries[*e as usize];
                    let nx = expr_ids.len() as u32;
                    let x = *expr_ids.entry(en.expr_id).or_insert(nx);
                    let nt = text_ids.len() as u32;
                    let t = *text_ids.entry(en.text_id).or_insert(nt);
                    entries.push(json!([en.call.ev.name(), en.call.expr, en.call.ph.encode(), en.oracle.encode(), en.ticks, en.trace.to_string(), x, t, en.sensitive]));
                    local.insert(*e, i);
                    i
                }
            };
            cl.push(li);
        }
        clients.push(cl);
    }
    let sw: Vec<[u32; 4]> = spec.switches.iter().map(|s| [s.thread, s.call, s.tick, s.to]).collect();
    let v = json!({
        "entries": entries,
        "spec": {
            "seed": spec.seed.to_string(), "clients": clients, "churn": spec.churn, "policy": policy_json(&spec.policy), "start": spec.start,
            "switches": sw, "est": spec.est_steps, "trace": spec.want_trace, "jumps": spec.clock_jumps, "depths": spec.stack_depths, "cpus": spec.cpu_limits,
        }
    });
    let mut out = vec![b'R'];
    out.extend_from_slice(v.to_string().as_bytes());
    out
}

pub fn decode_run(p: &[u8]) -> Option<(Pool, RunSpec)> {
    if p.is_empty() || p[0] != b'R' {
        return None;
    }
    let v: Value = serde_json::from_slice(&p[1..]).ok()?;
    let mut pool = Pool::default();
    let mut max_x = 0u32;
    let mut max_t = 0u32;
    for e in v.get("entries")?.as_array()? {
        let a = e.as_array()?;
        let ev = Ev::from_name(a.first()?.as_str()?)?;
        let call = Call { ev, expr: a.get(1)?.as_str()?.to_string(), ph: Ph::decode(a.get(2)?.as_str()?)? };
        let x = a.get(6)?.as_u64()? as u32;
        let t = a.get(7)?.as_u64()? as u32;
        max_x = max_x.max(x);
        max_t = max_t.max(t);
        pool.entries.push(Entry {
            call,
            expr_id: x,
            origin: "wire",
            oracle: Outcome::decode(a.get(3)?.as_str()?)?,
            ticks: a.get(4)?.as_u64()? as u32,
            trace: a.get(5)?.as_str()?.parse().ok()?,
            sensitive: a.get(8)?.as_bool()?,
            text_id: t,
        });
    }
    pool.by_expr = vec![Vec::new(); max_x as usize + 1];
    for (i, e) in pool.entries.iter().enumerate() {
        pool.by_expr[e.expr_id as usize].push(i as u32);
    }
    pool.n_texts = max_t as usize + 1;
    let s = v.get("spec")?;
    let u32s = |x: &Value| -> Option<Vec<u32>> { x.as_array()?.iter().map(|y| y.as_u64().map(|z| z as u32)).collect() };
    let clients: Vec<Vec<u32>> = s.get("clients")?.as_array()?.iter().map(u32s).collect::<Option<_>>()?;
    let churn: Vec<Vec<u32>> = s.get("churn")?.as_array()?.iter().map(u32s).collect::<Option<_>>()?;
    let switches: Vec<Sw> = s
        .get("switches")?
        .as_array()?
        .iter()
        .map(|q| {
            let a = u32s(q)?;
            if a.len() != 4 {
                return None;
            }
            Some(Sw { thread: a[0], call: a[1], tick: a[2], to: a[3] })
        })
        .collect::<Option<_>>()?;
    let jumps: Vec<Vec<(u32, i64, i64)>> = s
        .get("jumps")?
        .as_array()?
        .iter()
        .map(|t| t.as_array().map(|a| a.iter().filter_map(|j| { let q = j.as_array()?; Some((q.first()?.as_u64()? as u32, q.get(1)?.as_i64()?, q.get(2)?.as_i64()?)) }).collect()))
        .collect::<Option<_>>()?;
    let depths: Vec<Vec<(u32, u32)>> = s
        .get("depths")?
        .as_array()?
        .iter()
        .map(|t| t.as_array().map(|a| a.iter().filter_map(|j| { let q = j.as_array()?; Some((q.first()?.as_u64()? as u32, q.get(1)?.as_u64()? as u32)) }).collect()))
        .collect::<Option<_>>()?;
    let spec = RunSpec {
        seed: s.get("seed")?.as_str()?.parse().ok()?,
        clients,
        churn,
        policy: policy_from(s.get("policy")?)?,
        start: s.get("start")?.as_u64()? as u32,
        switches,
        est_steps: s.get("est")?.as_u64()?,
        want_trace: s.get("trace")?.as_bool()?,
        faults_enabled: Vec::new(),
        clock_jumps: jumps,
        stack_depths: depths,
        cpu_limits: u32s(s.get("cpus")?)?,
    };
    Some((pool, spec))
}

/// What an item child runs.
pub fn item_entry(p: &[u8]) -> ! {
    match p.first() {
        Some(b'I') => match decode_iso(p) {
            Some((call, cap)) => {
                let out = crate::oracle::isolated_child(&call, cap);
                crate::proc::item_finish(&out)
            }
            None => crate::proc::item_finish(b"bad-iso-payload"),
        },
        Some(b'R') => match decode_run(p) {
            Some((pool, spec)) => crate::sim::run_child(&pool, &spec),
            None => crate::proc::item_finish(b"{\"st\":\"crashed\",\"why\":\"bad run payload\"}"),
        },
        _ => crate::proc::item_finish(b"bad-payload"),
    }
}
