//! A self-contained simulated run (calls written out, explicit switch list): the replay-file form,
//! and the unit the minimiser works on.

use crate::gen::{Entry, Pool};
use crate::oracle::{isolated_many, Iso};
use crate::proc::{self, Exit};
use crate::sim::{self, Policy, RunSpec, Sw};
use crate::types::*;
use serde_json::{json, Value};
use std::collections::BTreeMap;
use std::time::Duration;

#[derive(Clone, Debug, PartialEq)]
pub struct Case {
    pub threads: Vec<Vec<Call>>,
    pub churn: Vec<Vec<u32>>,
    pub start: u32,
    pub switches: Vec<Sw>,
    /// per thread: (call_no, monotonic jump ns, wall-clock jump ns) applied before that call
    pub jumps: Vec<Vec<(u32, i64, i64)>>,
    /// per thread: (call_no, kilobytes of extra caller stack depth)
    pub depths: Vec<Vec<(u32, u32)>>,
    /// per thread: number of CPUs the OS thread is restricted to (0 = unrestricted)
    pub cpus: Vec<u32>,
    /// seed of what the run's entropy seam (`getrandom`) hands to the library
    pub entropy: u64,
    /// chained runs (process incarnations sharing a disk): this phase's process is killed at this step (0 = never)
    pub kill_step: u64,
    /// plan of injected I/O errors for this phase's process (0 = none)
    pub io_fault: u64,
    /// this phase ends in a power loss chosen by this seed (0 = none)
    pub power: u64,
    /// the phases that run before this one (each without prefix / next of its own) ...
    pub prefix: Vec<Case>,
    /// ... and the phase that runs after it
    pub next: Option<Box<Case>>,
}

impl Case {
    pub fn total_calls(&self) -> usize {
        self.threads.iter().map(|t| t.len()).sum::<usize>() + self.prefix.iter().map(|p| p.total_calls()).sum::<usize>() + self.next.as_ref().map_or(0, |n| n.total_calls())
    }
    /// all phases in running order, each on its own
    pub fn phases(&self) -> Vec<Case> {
        let mut out: Vec<Case> = self.prefix.iter().flat_map(|p| p.phases()).collect();
        let mut me = self.clone();
        let next = me.next.take();
        me.prefix.clear();
        out.push(me);
        if let Some(n) = next {
            out.extend(n.phases());
        }
        out
    }
    /// phases[i] as the focus, the others around it
    pub fn from_phases(phases: &[Case], focus: usize) -> Case {
        let mut c = phases[focus].clone();
        c.prefix = phases[..focus].to_vec();
        let mut next: Option<Box<Case>> = None;
        for p in phases[focus + 1..].iter().rev() {
            let mut q = p.clone();
            q.next = next.take();
            next = Some(Box::new(q));
        }
        c.next = next;
        c
    }
    pub fn size(&self) -> (usize, usize, usize, usize, usize) {
        let intra = self.switches.iter().filter(|s| s.tick != 0).count();
        let churn: usize = self.churn.iter().map(|c| c.len()).sum::<usize>() + self.jumps.iter().map(|c| c.len()).sum::<usize>() + self.depths.iter().map(|c| c.len()).sum::<usize>() + (self.io_fault != 0) as usize + (self.power != 0) as usize;
        let text: usize = self.threads.iter().flat_map(|t| t.iter()).map(|c| c.expr.len()).sum();
        (self.total_calls(), self.threads.len(), intra + churn, self.switches.len(), text)
    }
    pub fn to_json(&self) -> Value {
        json!({
            "threads": self.threads.iter().map(|t| Value::Array(t.iter().map(|c| c.to_json()).collect())).collect::<Vec<_>>(),
            "churn": self.churn,
            "start": self.start,
            "switches": sim::switches_to_json(&self.switches),
            "clock_jumps": self.jumps.iter().map(|t| t.iter().map(|(k, a, b)| json!([k, a, b])).collect::<Vec<_>>()).collect::<Vec<_>>(),
            "cpu_limits": self.cpus,
            "entropy_seed": self.entropy.to_string(),
            "kill_step": self.kill_step.to_string(),
            "io_fault_plan": self.io_fault.to_string(),
            "power_loss_seed": self.power.to_string(),
            "phases_before": self.prefix.iter().map(|p| p.to_json()).collect::<Vec<_>>(),
            "next_phase": self.next.as_ref().map(|n| n.to_json()).unwrap_or(Value::Null),
            "stack_depths_kb": self.depths.iter().map(|t| t.iter().map(|(k, a)| json!([k, a])).collect::<Vec<_>>()).collect::<Vec<_>>(),
        })
    }
    pub fn from_json(v: &Value) -> Option<Case> {
        let mut threads = Vec::new();
        for t in v.get("threads")?.as_array()? {
            let mut calls = Vec::new();
            for c in t.as_array()? {
                calls.push(Call::from_json(c)?);
            }
            threads.push(calls);
        }
        let mut churn: Vec<Vec<u32>> = Vec::new();
        if let Some(ch) = v.get("churn").and_then(|c| c.as_array()) {
            for c in ch {
                churn.push(c.as_array()?.iter().filter_map(|x| x.as_u64().map(|y| y as u32)).collect());
            }
        }
        churn.resize(threads.len(), Vec::new());
        let start = v.get("start").and_then(|s| s.as_u64()).unwrap_or(0) as u32;
        let switches = sim::switches_from_json(v.get("switches")?)?;
        let mut jumps: Vec<Vec<(u32, i64, i64)>> = Vec::new();
        if let Some(js) = v.get("clock_jumps").and_then(|c| c.as_array()) {
            for t in js {
                let mut tj = Vec::new();
                for j in t.as_array().cloned().unwrap_or_default() {
                    if let Some(a) = j.as_array() {
                        if a.len() == 3 {
                            tj.push((a[0].as_u64().unwrap_or(0) as u32, a[1].as_i64().unwrap_or(0), a[2].as_i64().unwrap_or(0)));
                        }
                    }
                }
                jumps.push(tj);
            }
        }
        jumps.resize(threads.len(), Vec::new());
        let mut depths: Vec<Vec<(u32, u32)>> = Vec::new();
        if let Some(ds) = v.get("stack_depths_kb").and_then(|c| c.as_array()) {
            for t in ds {
                let mut td = Vec::new();
                for j in t.as_array().cloned().unwrap_or_default() {
                    if let Some(a) = j.as_array() {
                        if a.len() == 2 {
                            td.push((a[0].as_u64().unwrap_or(0) as u32, a[1].as_u64().unwrap_or(0) as u32));
                        }
                    }
                }
                depths.push(td);
            }
        }
        depths.resize(threads.len(), Vec::new());
        let mut cpus: Vec<u32> = v.get("cpu_limits").and_then(|c| c.as_array()).map(|a| a.iter().map(|x| x.as_u64().unwrap_or(0) as u32).collect()).unwrap_or_default();
        cpus.resize(threads.len(), 0);
        let entropy = v.get("entropy_seed").and_then(|x| x.as_str()).and_then(|x| x.parse::<u64>().ok()).unwrap_or(0);
        let kill_step = v.get("kill_step").and_then(|x| x.as_str()).and_then(|x| x.parse::<u64>().ok()).unwrap_or(0);
        let io_fault = v.get("io_fault_plan").and_then(|x| x.as_str()).and_then(|x| x.parse::<u64>().ok()).unwrap_or(0);
        let power = v.get("power_loss_seed").and_then(|x| x.as_str()).and_then(|x| x.parse::<u64>().ok()).unwrap_or(0);
        let prefix: Vec<Case> = v.get("phases_before").and_then(|x| x.as_array()).map(|a| a.iter().filter_map(Case::from_json).collect()).unwrap_or_default();
        let next = v.get("next_phase").and_then(Case::from_json).map(Box::new);
        Some(Case { threads, churn, start, switches, jumps, depths, cpus, entropy, kill_step, io_fault, power, prefix, next })
    }
    pub fn from_spec(pool: &Pool, spec: &RunSpec, start: u32, switches: Vec<Sw>) -> Case {
        Case {
            threads: spec
                .clients
                .iter()
                .map(|c| c.iter().map(|e| pool.entries[*e as usize].call.clone()).collect())
                .collect(),
            churn: spec.churn.clone(),
            start,
            switches,
            jumps: spec.clock_jumps.clone(),
            depths: spec.stack_depths.clone(),
            cpus: spec.cpu_limits.clone(),
            entropy: spec.seed,
            kill_step: spec.kill_step,
            io_fault: spec.io_fault,
            power: spec.power,
            prefix: Vec::new(),
            next: None,
        }
    }
}

/// Isolated outcomes of calls, computed on demand (each in its own fresh process) and remembered.
#[derive(Default)]
pub struct OracleCache {
    pub map: BTreeMap<Call, Option<(Outcome, u32, u64)>>,
    pub workers: usize,
}

impl OracleCache {
    pub fn new(workers: usize) -> Self {
        OracleCache { map: BTreeMap::new(), workers }
    }
    pub fn seed_from_pool(&mut self, pool: &Pool) {
        for e in &pool.entries {
            self.map.insert(e.call.clone(), Some((e.oracle.clone(), e.ticks, e.trace)));
        }
    }
    pub fn ensure(&mut self, calls: &[Call]) {
        let mut missing: Vec<Call> = Vec::new();
        for c in calls {
            if !self.map.contains_key(c) && !missing.contains(c) {
                missing.push(c.clone());
            }
        }
        if missing.is_empty() {
            return;
        }
        let res = isolated_many(&missing, self.workers, Duration::from_millis(4000));
        for (c, r) in missing.into_iter().zip(res.into_iter()) {
            let v = match r {
                Iso::Done { outcome, ticks, trace } => Some((outcome, ticks, trace)),
                _ => None,
            };
            self.map.insert(c, v);
        }
    }
}

/// Turn a case into a private pool + spec. None if some call has no isolated outcome (never returns in isolation).
pub fn materialise(case: &Case, oc: &mut OracleCache) -> Option<(Pool, RunSpec)> {
    let phases = case.phases();
    let all: Vec<Call> = phases.iter().flat_map(|p| p.threads.iter().flat_map(|t| t.iter().cloned())).collect();
    oc.ensure(&all);
    let mut pool = Pool::default();
    let mut idx: BTreeMap<Call, u32> = BTreeMap::new();
    let mut expr_ids: BTreeMap<(Ev, String), u32> = BTreeMap::new();
    let mut specs: Vec<RunSpec> = Vec::new();
    for ph in phases.iter() {
        specs.push(materialise_phase(ph, oc, &mut pool, &mut idx, &mut expr_ids)?);
    }
    pool.assign_text_ids();
    let mut chain: Option<RunSpec> = None;
    while let Some(mut sp) = specs.pop() {
        sp.next = chain.take().map(Box::new);
        chain = Some(sp);
    }
    Some((pool, chain?))
}

fn materialise_phase(case: &Case, oc: &mut OracleCache, pool: &mut Pool, idx: &mut BTreeMap<Call, u32>, expr_ids: &mut BTreeMap<(Ev, String), u32>) -> Option<RunSpec> {
    let mut clients: Vec<Vec<u32>> = Vec::new();
    for t in &case.threads {
        let mut cl = Vec::new();
        for c in t {
            let i = match idx.get(c) {
                Some(i) => *i,
                None => {
                    let (o, ticks, trace) = oc.map.get(c)?.clone()?;
                    let next = expr_ids.len() as u32;
                    let id = *expr_ids.entry((c.ev, c.expr.clone())).or_insert(next);
                    if id as usize == pool.by_expr.len() {
                        pool.by_expr.push(Vec::new());
                        pool.by_text.entry(c.expr.clone()).or_default().push(id);
                    }
                    let i = pool.entries.len() as u32;
                    pool.by_expr[id as usize].push(i);
                    pool.entries.push(Entry {
                        call: c.clone(),
                        expr_id: id,
                        origin: "case",
                        oracle: o,
                        ticks,
                        trace,
                        sensitive: false,
                        text_id: 0,
                    });
                    idx.insert(c.clone(), i);
                    i
                }
            };
            cl.push(i);
        }
        clients.push(cl);
    }
    let mut churn = case.churn.clone();
    churn.resize(clients.len(), Vec::new());
    let spec = RunSpec {
        seed: case.entropy,
        clients,
        churn,
        policy: Policy::Replay,
        start: case.start,
        switches: case.switches.clone(),
        est_steps: 0,
        want_trace: true,
        faults_enabled: Vec::new(),
        clock_jumps: {
            let mut j = case.jumps.clone();
            j.resize(case.threads.len(), Vec::new());
            j
        },
        stack_depths: {
            let mut d = case.depths.clone();
            d.resize(case.threads.len(), Vec::new());
            d
        },
        cpu_limits: {
            let mut c = case.cpus.clone();
            c.resize(case.threads.len(), 0);
            c
        },
        kill_step: case.kill_step,
        io_fault: case.io_fault,
        power: case.power,
        next: None,
    };
    Some(spec)
}

#[derive(Clone, Debug)]
pub struct RunResult {
    pub status: String, // ok | violation | inconclusive | lost_control | crashed
    pub rec: Value,
}

impl RunResult {
    pub fn violation_class(&self) -> Option<(String, String)> {
        if self.status != "violation" {
            return None;
        }
        let v = self.rec.get("violation")?;
        Some((
            v.get("call")?.get("ev")?.as_str()?.to_string(),
            v.get("kind")?.as_str()?.to_string(),
        ))
    }
    pub fn recorded(&self) -> Option<(u32, Vec<Sw>)> {
        let start = self.rec.get("start")?.as_u64()? as u32;
        let sw = sim::switches_from_json(self.rec.get("switches")?)?;
        Some((start, sw))
    }
    /// the recorded schedule, if it is the schedule of phase `focus` (single-phase runs have no phase number)
    pub fn recorded_for(&self, focus: usize) -> Option<(u32, Vec<Sw>)> {
        match self.rec.get("phase").and_then(|x| x.as_u64()) {
            Some(p) if p as usize != focus => None,
            _ => self.recorded(),
        }
    }
    pub fn hash(&self) -> String {
        self.rec.get("h").and_then(|h| h.as_str()).unwrap_or("").to_string()
    }
}

pub fn classify(bytes: &[u8], exit: Exit) -> RunResult {
    match exit {
        Exit::Timeout => RunResult { status: "lost_control".into(), rec: Value::Null },
        Exit::Signal(s) => RunResult { status: "crashed".into(), rec: json!({"signal": s}) },
        Exit::Code(c) => RunResult { status: "crashed".into(), rec: json!({"exit_code": c}) },
        Exit::Ok => match serde_json::from_slice::<Value>(bytes) {
            Ok(v) => {
                let st = v.get("st").and_then(|s| s.as_str()).unwrap_or("crashed").to_string();
                RunResult { status: st, rec: v }
            }
            Err(_) => RunResult { status: "crashed".into(), rec: json!({"garbled": String::from_utf8_lossy(bytes).chars().take(100).collect::<String>()}) },
        },
    }
}

/// Run each case once, each in a fresh process, in parallel.
pub fn run_cases(cases: &[Case], oc: &mut OracleCache, workers: usize, timeout: Duration) -> Vec<Option<RunResult>> {
    let mats: Vec<Option<(Pool, RunSpec)>> = cases.iter().map(|c| materialise(c, oc)).collect();
    let mut out: Vec<Option<RunResult>> = vec![None; cases.len()];
    let live: Vec<usize> = (0..cases.len()).filter(|i| mats[*i].is_some()).collect();
    proc::zmap(
        live.len(),
        workers,
        timeout,
        None,
        &mut || true,
        &mut |k| {
            let (pool, spec) = mats[live[k]].as_ref().unwrap();
            Some(crate::wire::encode_run(pool, spec))
        },
        &mut |k, bytes, exit| {
            out[live[k]] = Some(classify(&bytes, exit));
        },
    );
    out
}

pub fn case_timeout(case: &Case) -> Duration {
    Duration::from_millis(2000 + (case.total_calls() as u64) / 2)
}
