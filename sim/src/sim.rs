//! The simulator proper: real OS threads, one runnable at a time (baton), every scheduling choice
//! taken from the run's PRNG (or from a recorded switch list when replaying).
//!
//! Runs inside a freshly forked process (see proc.rs); ends the process through `item_finish`.
//!
//! Decision points: call boundaries, thread exit, ticks (source ticks and, when the build is
//! block-instrumented, every basic-block edge of the library crates), and futex waits issued from inside
//! a library call (a caller thread about to block on a lock another, parked, thread holds: the simulator
//! parks it instead and picks someone else, so a lock held across scheduling points never stalls a run).

use crate::gen::Pool;
use crate::oracle::{silence_stderr, STACK_BYTES};
use crate::proc;
use crate::tick::{self, TickCtx, T};
pub use crate::tick::{BLOCKED, BOUNDARY, EXITED, NSITES, SHARED};
use crate::types::*;
use serde_json::{json, Value};
use std::collections::{BTreeMap, BTreeSet};
use std::sync::atomic::{AtomicPtr, Ordering};
use std::sync::{Condvar, Mutex};
use string_calculator::verif_hooks::set_thread_hook;

pub const SITE_NAMES: [&str; NSITES] = [
    "ApiEnter", "ApiLexed", "ApiParsed", "TokNext", "TokScan", "SupScan", "ParseNext", "ParseAtom", "ParseClimb",
    "ParseArgs", "EvalEnter", "EvalLoop", "boundary", "exit", "basic_block", "before_shared_access", "blocked_on_futex", "memory_access", "after_shared_access",
];

/// a PRNG-driven run stops pre-empting inside calls after this many context switches (each costs ~20-40 us)
pub const MAX_INTRA_SWITCHES: u64 = 3000;

/// threads the library spawns itself from inside a call are adopted by the scheduler (up to this many per run);
/// in switch lists they are numbered HELPER_BASE + k (k = order of creation), so that a list stays valid when the
/// minimiser drops or merges caller threads
pub const MAX_HELPERS: usize = 24;
pub const HELPER_BASE: u32 = 1000;
/// `to` of a switch-list entry that means "the process is killed here"
pub const KILL: u32 = u32::MAX;
/// a thread that has run this many ticks without a decision while somebody it might be spinning on is parked (a
/// caller in the middle of a call, a library thread) reaches a decision point that prefers the others: code that
/// busy-waits without a system call (std's channels do, briefly) must not hang a run
pub const SPIN_GUARD: u64 = 300_000;
/// pseudo futex "addresses" (below any mapped page): 1 = a sleep, JOIN_BASE + k = waiting for adopted thread k to end
const JOIN_BASE: usize = 16;

/// per-call cap on ticks inside a simulated run (pool entries need far fewer: see oracle::isolated_tick_cap)
pub fn call_step_cap() -> u64 {
    if tick::bb_guards() > 0 {
        256_000_000
    } else {
        1_000_000
    }
}

#[derive(Clone, Debug, PartialEq)]
pub enum Policy {
    /// threads run to completion one after another, random order
    Serial,
    /// switch only between calls
    CallAtomic { q: f64 },
    /// at every tick switch with probability p
    RandomWalk { p: f64 },
    /// random priorities with k priority-change points
    Pct { k: usize },
    /// always pre-empt at one source site kind, otherwise random walk with p
    Targeted { site: usize, p: f64 },
    /// pre-empt (probability q) right after an access to memory another caller thread touched, otherwise random walk with p
    RaceDirected { p: f64, q: f64 },
    /// follow `RunSpec::switches`
    Replay,
}

impl Policy {
    pub fn name(&self) -> String {
        match self {
            Policy::Serial => "serial".into(),
            Policy::CallAtomic { q } => format!("call_atomic({})", q),
            Policy::RandomWalk { p } => format!("random_walk({})", p),
            Policy::Pct { k } => format!("pct({})", k),
            Policy::Targeted { site, p } => format!("targeted({},{})", SITE_NAMES[*site], p),
            Policy::RaceDirected { p, q } => format!("race_directed({},{})", p, q),
            Policy::Replay => "replay".into(),
        }
    }
    pub fn family(&self) -> &'static str {
        match self {
            Policy::Serial => "serial",
            Policy::CallAtomic { .. } => "call_atomic",
            Policy::RandomWalk { .. } => "random_walk",
            Policy::Pct { .. } => "pct",
            Policy::Targeted { .. } => "targeted",
            Policy::RaceDirected { .. } => "race_directed",
            Policy::Replay => "replay",
        }
    }
}

/// One context switch: `thread`, positioned at decision point (`call`, `tick`), hands over to `to`.
/// tick 0 = the boundary before call number `call`; call == number of calls = the thread's exit.
#[derive(Clone, Copy, Debug, PartialEq, Eq)]
pub struct Sw {
    pub thread: u32,
    pub call: u32,
    pub tick: u32,
    pub to: u32,
}

#[derive(Clone, Debug)]
pub struct RunSpec {
    pub seed: u64,
    /// per logical client: pool entry indices, in call order
    pub clients: Vec<Vec<u32>>,
    /// per logical client: call numbers after which the OS thread is retired and replaced
    pub churn: Vec<Vec<u32>>,
    pub policy: Policy,
    pub start: u32,
    pub switches: Vec<Sw>,
    /// expected total number of decision points (for PCT change points)
    pub est_steps: u64,
    pub want_trace: bool,
    pub faults_enabled: Vec<&'static str>,
    /// fault kind F8: per logical client, (call_no, monotonic jump ns, wall-clock jump ns) applied at the boundary
    /// before that call; the wall clock may jump backwards, the monotonic one never does
    pub clock_jumps: Vec<Vec<(u32, i64, i64)>>,
    /// fault kind F9: per logical client, (call_no, kilobytes): that call is made from a caller frame that many
    /// kilobytes further down the thread's stack
    pub stack_depths: Vec<Vec<(u32, u32)>>,
    /// fault kind F10: per logical client, the number of CPUs its OS thread is allowed to run on (0 = unrestricted)
    pub cpu_limits: Vec<u32>,
    /// this phase's process is killed (as by SIGKILL: no destructors, no flushes) when the run's step counter
    /// reaches this value (0 = never); the files it wrote so far are what the next phase finds
    pub kill_step: u64,
    /// fault kind F11: plan of injected I/O errors for this process incarnation (0 = none), see disk.rs
    pub io_fault: u64,
    /// the phase ends in a power loss chosen by this seed (0 = none): unsynced file tails may be gone, see disk.rs
    pub power: u64,
    /// the next process incarnation of a chained run: fresh memory, same private disk
    pub next: Option<Box<RunSpec>>,
}

/// restrict the calling thread to the first `n` CPUs of its current affinity mask (n = 0: leave it alone)
fn limit_cpus(n: u32) -> bool {
    if n == 0 {
        return false;
    }
    unsafe {
        let mut set: libc::cpu_set_t = std::mem::zeroed();
        if libc::sched_getaffinity(0, std::mem::size_of::<libc::cpu_set_t>(), &mut set) != 0 {
            return false;
        }
        let mut out: libc::cpu_set_t = std::mem::zeroed();
        let mut kept = 0;
        for cpu in 0..libc::CPU_SETSIZE as usize {
            if libc::CPU_ISSET(cpu, &set) {
                if kept < n {
                    libc::CPU_SET(cpu, &mut out);
                    kept += 1;
                }
            }
        }
        kept > 0 && libc::sched_setaffinity(0, std::mem::size_of::<libc::cpu_set_t>(), &out) == 0
    }
}

/// run `f` from a frame roughly `bytes` further down the stack
#[inline(never)]
fn call_at_depth(bytes: usize, f: &mut dyn FnMut()) {
    if bytes == 0 {
        f();
        return;
    }
    // a 32 KB frame that is never written: moving the stack pointer is what matters, and untouched pages cost nothing
    let mut pad = std::mem::MaybeUninit::<[u8; 32768]>::uninit();
    std::hint::black_box(pad.as_mut_ptr());
    call_at_depth(bytes.saturating_sub(32768), f);
    std::hint::black_box(pad.as_ptr());
}

pub const VCLOCK_MONO_BASE: i64 = 1_000_000 * 1_000_000_000;
pub const VCLOCK_REAL_BASE: i64 = 1_790_000_000 * 1_000_000_000;

/// The virtual clock, for a clock read issued by a caller thread inside a library call. None = use the real clock.
pub fn virtual_clock(real: bool) -> Option<i64> {
    T.try_with(|c| {
        if !c.in_call.get() || c.in_hook.get() {
            return None;
        }
        match c.mode.get() {
            tick::MODE_ISO => {
                let n = c.iso_clock_reads.get() + 1;
                c.iso_clock_reads.set(n);
                Some(if real { VCLOCK_REAL_BASE } else { VCLOCK_MONO_BASE } + n as i64)
            }
            tick::MODE_SIM => {
                let sh = shared()?;
                c.in_hook.set(true);
                let v = {
                    let mut st = sh.m.lock().unwrap();
                    st.clock_reads += 1;
                    st.vmono += 1;
                    st.vreal += 1;
                    if real {
                        VCLOCK_REAL_BASE + st.vreal
                    } else {
                        VCLOCK_MONO_BASE + st.vmono
                    }
                };
                c.in_hook.set(false);
                Some(v)
            }
            _ => None,
        }
    })
    .ok()
    .flatten()
}

#[derive(Clone, Copy, PartialEq)]
enum Kind {
    Boundary,
    Tick(usize),
    Exit,
    Blocked,
    /// sched_yield() from inside the library: prefer somebody else
    Yield,
}

struct St {
    current: usize,
    start: u32,
    ready: Vec<bool>,
    done: Vec<bool>,
    blocked: Vec<Option<usize>>,
    blocked_val: Vec<u32>,
    /// a timed wait / sleep: the virtual monotonic time at which it ends by itself
    deadline: Vec<Option<i64>>,
    /// this decision may end a timed wait early ("the timer fires"): drawn per decision from the run's PRNG
    allow_timers: bool,
    timer_q: f64,
    timeouts: u64,
    sleeps: u64,
    yields: u64,
    /// number of caller threads (indices 0..nc); indices nc..nc+MAX_HELPERS are adopted library threads
    nc: usize,
    helpers: usize,
    /// pthread_t of each adopted thread (for pthread_join)
    helper_pt: Vec<usize>,
    /// the last few baton holders, most recent last (scripted schedules: "back to whoever ran before")
    recent: Vec<usize>,
    kill_now: bool,
    /// a thread held back after a file operation: not eligible before this many calls have completed in the run
    hold: Vec<u64>,
    file_points: u64,
    file_holds: u64,
    natural: bool,
    yielding: bool,
    joins: u64,
    rescued: u64,
    in_call: Vec<Option<u32>>,
    cur_call: Vec<u32>,
    parked_site: Vec<usize>,
    churn_req: Option<(usize, usize)>,
    exit_join: Option<(usize, Option<usize>)>,
    rng: Rng,
    // policy state
    order: Vec<usize>,
    prio: Vec<i64>,
    low_prio: i64,
    change_points: BTreeSet<u64>,
    sw_i: usize,
    // record
    step: u64,
    log: Hasher64,
    sched: Hasher64,
    rec: Vec<Sw>,
    results: Vec<(u32, u32, u32, u64)>, // client, call_no, entry, outcome hash
    // stats
    calls: u64,
    ticks: u64,
    block_ticks: u64,
    shared_hits: u64,
    switches: u64,
    futex_waits: u64,
    vmono: i64,
    vreal: i64,
    clock_reads: u64,
    f: [u64; 11],
    preempt_site: [u64; NSITES],
    pairs: [[u64; NSITES]; NSITES],
    work_differs: u64,
    sens_calls: u64,
    err_pending: u64,
    panic_pending: u64,
    // per expression id: first entry seen (u32::MAX = none), and whether two different entries were seen
    seen_expr: Vec<(u32, bool)>,
    // per text id: mask of evaluators that evaluated it
    seen_text: Vec<u8>,
    max_inflight: usize,
}

struct Shared {
    m: Mutex<St>,
    cv: Vec<Condvar>,
    /// index of the coordinator's condvar / baton value
    coord: usize,
    adopt_cv: Condvar,
    pool: &'static Pool,
    spec: &'static RunSpec,
    n: usize,
}

static RUN_SHARED: AtomicPtr<Shared> = AtomicPtr::new(std::ptr::null_mut());

fn shared() -> Option<&'static Shared> {
    let p = RUN_SHARED.load(Ordering::Acquire);
    if p.is_null() {
        None
    } else {
        Some(unsafe { &*p })
    }
}

/// a tick arrived past the per-call cap (called with in_hook set)
pub fn cap_exceeded(mode: u8) -> ! {
    if mode == tick::MODE_ISO {
        proc::item_finish(b"cap")
    }
    if std::env::var("SC_DEBUG_BT").is_ok() {
        let bt = std::backtrace::Backtrace::force_capture();
        let _ = std::fs::write("/root/scratch/cap_bt.txt", format!("{}", bt));
    }
    finish_inconclusive("call_step_cap")
}

fn finish_inconclusive(why: &str) -> ! {
    proc::item_finish(json!({"st": "inconclusive", "why": why}).to_string().as_bytes())
}

/// a tick that is due for a scheduling decision (called with in_hook set)
pub fn slow_tick(c: &TickCtx, site: usize) {
    if let Some(sh) = shared() {
        let before = c.pending_shared.replace(false);
        let after = !before && c.pending_after.replace(false);
        let site = if before {
            SHARED
        } else if after {
            tick::AFTER_SHARED
        } else {
            site
        };
        let guard = !before && !after && c.ticks.get().saturating_sub(c.synced.get()) >= SPIN_GUARD;
        let wake = sh.decision(c.me.get(), c.call_no.get(), c.ticks.get(), if guard { Kind::Yield } else { Kind::Tick(site) }, c);
        if before {
            // the access executes now; a second decision point follows shortly after it: on the very next tick, or
            // a few (up to a few hundred) ticks later - far enough to leave the critical section the access was
            // made in, so that "unlock ... re-lock" windows right after a shared store get their pre-emption
            c.pending_after.set(true);
            let d = {
                let mut st = sh.m.lock().unwrap();
                let span = [0u64, 0, 4, 16, 64, 256, 1024][st.rng.below(7)];
                if span == 0 { 0 } else { st.rng.below(span as usize + 1) as u64 }
            };
            c.wake.set((c.ticks.get() + 1 + d).min(wake));
        } else {
            c.wake.set(wake);
        }
    }
}

/// `syscall(SYS_futex, ..)` issued by a caller thread from inside a library call. Returns Some(result) when
/// the simulator handled it (the thread never blocks in the kernel), None to let the real system call run.
pub fn intercept_futex(addr: usize, op: i32, val: u32, timeout: *const libc::timespec) -> Option<i64> {
    let cmd = op & 0x7f;
    let is_wait = cmd == libc::FUTEX_WAIT || cmd == libc::FUTEX_WAIT_BITSET;
    let is_wake = cmd == libc::FUTEX_WAKE || cmd == libc::FUTEX_WAKE_BITSET;
    if !is_wait && !is_wake {
        return None;
    }
    T.try_with(|c| {
        if c.mode.get() != tick::MODE_SIM || !c.in_call.get() || c.in_hook.get() {
            return None;
        }
        let sh = shared()?;
        c.in_hook.set(true);
        let r = if is_wait {
            // the kernel's own check first: only sleep if the word still holds the expected value
            let cur = unsafe { (*(addr as *const std::sync::atomic::AtomicU32)).load(Ordering::SeqCst) };
            if cur != val {
                unsafe { *libc::__errno_location() = libc::EAGAIN };
                -1
            } else {
                // FUTEX_WAIT: relative timeout; FUTEX_WAIT_BITSET: absolute, on the monotonic clock unless
                // FUTEX_CLOCK_REALTIME is set. The library computed absolute times from the virtual clock.
                let deadline = if timeout.is_null() {
                    None
                } else {
                    let ts = unsafe { *timeout };
                    let ns = (ts.tv_sec as i64).saturating_mul(1_000_000_000).saturating_add(ts.tv_nsec as i64);
                    let (vm, vr) = {
                        let st = sh.m.lock().unwrap();
                        (st.vmono, st.vreal)
                    };
                    Some(if cmd == libc::FUTEX_WAIT {
                        vm.saturating_add(ns)
                    } else if op & libc::FUTEX_CLOCK_REALTIME != 0 {
                        (ns - VCLOCK_REAL_BASE - vr).saturating_add(vm)
                    } else {
                        ns - VCLOCK_MONO_BASE
                    })
                };
                if sh.block_on(c, addr, val, deadline) {
                    0
                } else {
                    unsafe { *libc::__errno_location() = libc::ETIMEDOUT };
                    -1
                }
            }
        } else {
            sh.wake(addr, val)
        };
        c.in_hook.set(false);
        Some(r)
    })
    .ok()
    .flatten()
}

/// entropy seed of the current simulated run (None outside a run)
pub fn run_entropy() -> Option<u64> {
    shared().map(|sh| sh.spec.seed)
}

/// nanosleep / clock_nanosleep issued by a library thread inside a simulated run: a timed wait on nothing.
/// `abs`: None = relative nanoseconds, Some(realtime?) = absolute on that clock. Returns false if not handled.
pub fn intercept_sleep(ns: i64, abs: Option<bool>) -> bool {
    T.try_with(|c| {
        if c.mode.get() != tick::MODE_SIM || !c.in_call.get() || c.in_hook.get() {
            return false;
        }
        let sh = match shared() {
            Some(s) => s,
            None => return false,
        };
        c.in_hook.set(true);
        let (vm, vr) = {
            let st = sh.m.lock().unwrap();
            (st.vmono, st.vreal)
        };
        let deadline = match abs {
            None => vm.saturating_add(ns.max(0)),
            Some(true) => (ns - VCLOCK_REAL_BASE - vr).saturating_add(vm),
            Some(false) => ns - VCLOCK_MONO_BASE,
        };
        sh.block_on(c, 1, 0, Some(deadline));
        c.in_hook.set(false);
        true
    })
    .unwrap_or(false)
}

/// sched_yield() from a library thread inside a simulated run: a decision point that prefers another thread
pub fn intercept_yield() -> bool {
    T.try_with(|c| {
        if c.mode.get() != tick::MODE_SIM || !c.in_call.get() || c.in_hook.get() {
            return false;
        }
        let sh = match shared() {
            Some(s) => s,
            None => return false,
        };
        c.in_hook.set(true);
        sh.m.lock().unwrap().yields += 1;
        c.ticks.set(c.ticks.get() + 1);
        let wake = sh.decision(c.me.get(), c.call_no.get(), c.ticks.get(), Kind::Yield, c);
        c.wake.set(wake);
        c.in_hook.set(false);
        true
    })
    .unwrap_or(false)
}

/// pthread_create called by a library thread inside a simulated run: reserve a scheduler slot for the new thread.
/// Leaves `in_hook` set on the creating thread until `adopt_end`.
pub fn adopt_begin() -> Option<usize> {
    T.try_with(|c| {
        if c.mode.get() != tick::MODE_SIM || !c.in_call.get() || c.in_hook.get() {
            return None;
        }
        let sh = shared()?;
        let mut st = sh.m.lock().unwrap();
        if st.helpers >= MAX_HELPERS {
            return None;
        }
        let id = st.nc + st.helpers;
        st.helpers += 1;
        c.in_hook.set(true);
        Some(id)
    })
    .ok()
    .flatten()
}

/// A path operation of the library (open / create / rename / unlink / stat ...) reached the disk seam: an event of
/// its own on the thread's time line (like a blocking operation), and in PRNG-driven runs a place where the
/// scheduler likes to stall the thread: with probability 0.35 it yields here and is held back until 1..100 more
/// calls have completed in the run - a writer parked between creating a file and filling it, while others go on
/// reading and writing the same file.
pub fn file_op_point() {
    let _ = T.try_with(|c| {
        if c.mode.get() != tick::MODE_SIM || !c.in_call.get() || c.in_hook.get() {
            return;
        }
        let sh = match shared() {
            Some(s) => s,
            None => return,
        };
        c.in_hook.set(true);
        c.ticks.set(c.ticks.get() + 1);
        let force = {
            let mut st = sh.m.lock().unwrap();
            st.file_points += 1;
            if sh.spec.policy != Policy::Replay && st.done.len() > 1 && st.rng.chance(0.35) {
                let me = c.me.get();
                let n = [1u64, 4, 16, 40, 100][st.rng.below(5)];
                st.hold[me] = st.calls + n;
                st.file_holds += 1;
                true
            } else {
                false
            }
        };
        if force || c.ticks.get() >= c.wake.get() {
            let wake = sh.decision(c.me.get(), c.call_no.get(), c.ticks.get(), Kind::Yield, c);
            c.wake.set(wake);
        }
        c.in_hook.set(false);
    });
}

/// pthread_join issued inside the library on an adopted thread: wait, as a scheduling decision, until that thread
/// has left its start routine (the real join that follows then returns at once). glibc waits for the kernel's
/// exit notification with a system call of its own, which the simulator cannot see: without this the joiner
/// would sleep in the kernel holding the baton.
pub fn intercept_join(pt: usize) {
    let _ = T.try_with(|c| {
        if c.mode.get() != tick::MODE_SIM || !c.in_call.get() || c.in_hook.get() {
            return;
        }
        let sh = match shared() {
            Some(s) => s,
            None => return,
        };
        c.in_hook.set(true);
        let target = {
            let mut st = sh.m.lock().unwrap();
            // (a pthread_t is reused once its thread has been joined: look for the live one)
            let k = (0..st.helpers).find(|k| st.helper_pt[*k] == pt && !st.done[st.nc + *k]);
            if k.is_some() {
                st.joins += 1;
            }
            k
        };
        if let Some(k) = target {
            sh.block_on(c, JOIN_BASE + k, 0, None);
        }
        c.in_hook.set(false);
    });
}

/// the creating thread (holding the baton) waits until the new thread is parked in the scheduler
pub fn adopt_end(id: usize, created: bool, pt: usize) {
    if let Some(sh) = shared() {
        let mut st = sh.m.lock().unwrap();
        if created {
            let k = id - st.nc;
            st.helper_pt[k] = pt;
            while !st.ready[id] {
                st = sh.adopt_cv.wait(st).unwrap();
            }
            st.log.u64(0xAD09_0000 | id as u64);
        } else {
            st.helpers -= 1;
        }
    }
    let _ = T.try_with(|c| c.in_hook.set(false));
}

/// body of an adopted library thread: register, wait for the baton, run the library's start routine under the
/// scheduler (every tick, futex wait, sleep and yield of it is a decision point), then leave.
pub fn helper_main(id: usize, body: &mut dyn FnMut()) {
    let sh = match shared() {
        Some(s) => s,
        None => {
            body();
            return;
        }
    };
    T.with(|c| {
        c.mode.set(tick::MODE_SIM);
        c.me.set(id);
        c.in_hook.set(true);
        c.in_call.set(true);
        c.cap.set(u64::MAX);
        c.wake.set(u64::MAX);
        c.target_site.set(match &sh.spec.policy {
            Policy::Targeted { site, .. } => *site,
            _ => usize::MAX,
        });
        c.track_mem.set(matches!(sh.spec.policy, Policy::RaceDirected { .. }));
        tick::note_stack(c, 0);
        tick::begin_call(c, 0);
        set_thread_hook(Some(tick::source_hook));
        {
            let mut st = sh.m.lock().unwrap();
            st.done[id] = false;
            st.ready[id] = true;
            st.parked_site[id] = BOUNDARY;
            st.cur_call[id] = 0;
            let pr = 1000 + st.rng.below(64) as i64;
            st.prio[id] = pr;
            st.order.push(id);
            sh.adopt_cv.notify_all();
            while st.current != id {
                st = sh.cv[id].wait(st).unwrap();
            }
            let w = st.compute_wake(sh.spec, id, 0, 0);
            c.wake.set(w);
        }
        c.in_hook.set(false);
        body();
        c.in_hook.set(true);
        set_thread_hook(None);
        sh.decision(id, 0, c.ticks.get(), Kind::Exit, c);
        c.in_call.set(false);
        c.mode.set(tick::MODE_OFF);
    });
}

fn geometric(rng: &mut Rng, p: f64) -> u64 {
    if p <= 0.0 {
        return u64::MAX / 4;
    }
    if p >= 1.0 {
        return 0;
    }
    let u = rng.unit().max(1e-300);
    let g = (u.ln() / (1.0 - p).ln()).floor();
    if g > 1e15 {
        u64::MAX / 4
    } else {
        g as u64
    }
}

impl St {
    fn eligible(&self, i: usize) -> bool {
        // a timed waiter can run when the scheduler lets its timer fire early, and in any case once virtual time has
        // passed its deadline (clock jumps of F8, or other timers, move the clock)
        !self.done[i] && self.hold[i] <= self.calls && (self.blocked[i].is_none() || self.deadline[i].map_or(false, |d| self.allow_timers || d <= self.vmono))
    }

    fn enc(&self, i: usize) -> u32 {
        if i >= self.nc { HELPER_BASE + (i - self.nc) as u32 } else { i as u32 }
    }

    fn dec(&self, x: u32) -> usize {
        if x >= HELPER_BASE { self.nc + (x - HELPER_BASE) as usize } else { x as usize }
    }

    fn helpers_alive(&self) -> bool {
        (self.nc..self.done.len()).any(|i| !self.done[i])
    }

    fn random_other(&mut self, me: usize) -> Option<usize> {
        let o: Vec<usize> = (0..self.done.len()).filter(|i| *i != me && self.eligible(*i)).collect();
        if o.is_empty() {
            None
        } else {
            Some(o[self.rng.below(o.len())])
        }
    }

    /// Who runs next. `None`: nobody else can run (at Exit / Blocked that means the run is over or stuck).
    /// `must_leave`: the deciding thread cannot continue (it exited or is blocked).
    fn decide(&mut self, spec: &RunSpec, me: usize, pos: (u32, u32), kind: Kind) -> Option<usize> {
        let must_leave = matches!(kind, Kind::Exit | Kind::Blocked);
        let stay = if must_leave { None } else { Some(me) };
        if self.hold.iter().any(|h| *h > self.calls) && (spec.policy == Policy::Replay || (must_leave && !(0..self.done.len()).any(|i| i != me && self.eligible(i)))) {
            // held threads are released when nobody else can run (and a scripted schedule never holds anybody)
            for h in self.hold.iter_mut() {
                *h = 0;
            }
        }
        if self.deadline.iter().any(|d| d.is_some()) {
            // somebody is in a timed wait: may its timer fire now? Always when replaying (the list says who runs), and
            // whenever nobody could run otherwise
            self.allow_timers = spec.policy == Policy::Replay || self.rng.chance(self.timer_q);
            if !self.allow_timers && must_leave && !(0..self.done.len()).any(|i| i != me && self.eligible(i)) {
                self.allow_timers = true;
            }
        }
        if kind == Kind::Yield && spec.policy != Policy::Replay {
            return self.random_other(me).or(stay);
        }
        if matches!(kind, Kind::Tick(_)) && self.switches > MAX_INTRA_SWITCHES && spec.policy != Policy::Replay {
            return stay;
        }
        match &spec.policy {
            // (a yield under a scripted schedule: follow the list if it has an entry here, else let somebody else run -
            // staying would spin forever on whatever the yielding thread is waiting for)
            Policy::Replay if kind == Kind::Yield => {
                // A recorded run passed this point without handing over if the list goes on with a later position of
                // this same thread. While the call is within its natural length the replay does the same (the yield is
                // the spin guard or a file operation, not a thread waiting for somebody); beyond that it lets others run.
                let natural = self.natural;
                self.yielding = true;
                let d = self.decide_replay(spec, me, pos, !natural).or(stay);
                self.yielding = false;
                d
            }
            Policy::Replay => self.decide_replay(spec, me, pos, must_leave),
            Policy::Serial => {
                if must_leave {
                    let order = self.order.clone();
                    order.into_iter().find(|i| *i != me && self.eligible(*i))
                } else {
                    Some(me)
                }
            }
            Policy::CallAtomic { q } => match kind {
                Kind::Yield => stay,
                Kind::Exit | Kind::Blocked => self.random_other(me),
                Kind::Boundary => {
                    if self.rng.chance(*q) {
                        self.random_other(me).or(stay)
                    } else {
                        stay
                    }
                }
                Kind::Tick(_) => stay,
            },
            Policy::RandomWalk { .. } | Policy::Targeted { .. } => match kind {
                Kind::Yield => stay,
                Kind::Exit | Kind::Blocked => self.random_other(me),
                Kind::Boundary => {
                    if self.rng.chance(0.4) {
                        self.random_other(me).or(stay)
                    } else {
                        stay
                    }
                }
                // a tick only reaches the scheduler when its countdown expired or it is the targeted site
                Kind::Tick(_) => self.random_other(me).or(stay),
            },
            Policy::RaceDirected { q, .. } => match kind {
                Kind::Yield => stay,
                Kind::Exit | Kind::Blocked => self.random_other(me),
                Kind::Boundary => {
                    if self.rng.chance(0.4) {
                        self.random_other(me).or(stay)
                    } else {
                        stay
                    }
                }
                Kind::Tick(s) => {
                    if (s != SHARED && s != tick::AFTER_SHARED) || self.rng.chance(*q) {
                        self.random_other(me).or(stay)
                    } else {
                        stay
                    }
                }
            },
            Policy::Pct { .. } => {
                while let Some(cp) = self.change_points.iter().next().copied() {
                    if cp > self.step {
                        break;
                    }
                    self.change_points.remove(&cp);
                    self.low_prio -= 1;
                    self.prio[me] = self.low_prio;
                }
                let mut best: Option<usize> = None;
                for i in 0..self.done.len() {
                    if !self.eligible(i) || (must_leave && i == me) {
                        continue;
                    }
                    if best.map_or(true, |b| self.prio[i] > self.prio[b]) {
                        best = Some(i);
                    }
                }
                best
            }
        }
    }

    fn decide_replay(&mut self, spec: &RunSpec, me: usize, pos: (u32, u32), must_leave: bool) -> Option<usize> {
        let n = self.done.len();
        let mut want: Option<usize> = None;
        loop {
            let head = match spec.switches.get(self.sw_i) {
                Some(h) => *h,
                None => break,
            };
            let ht = self.dec(head.thread);
            if ht >= n || (self.done[ht] && ht != me) {
                self.sw_i += 1;
                continue;
            }
            if ht == me {
                let hp = (head.call, head.tick);
                if hp < pos {
                    self.sw_i += 1;
                    continue;
                }
                if hp == pos {
                    self.sw_i += 1;
                    if head.to == KILL {
                        self.kill_now = true;
                        return Some(me);
                    }
                    let to = self.dec(head.to);
                    if to == me {
                        // marker: the recorded run stayed here
                        return Some(me);
                    }
                    if to < n && to != me && self.eligible(to) {
                        return Some(to);
                    }
                    continue;
                }
                // not yet. A yield (the spin guard, which fires at other ticks in a replay than in the recorded run) with
                // the thread's next listed position close ahead in the same call: the recorded run got there without
                // handing over, and so does the replay (bounded: the position is reached within SPIN_GUARD ticks)
                if self.yielding && hp.0 == pos.0 && (hp.1 as u64) <= pos.1 as u64 + SPIN_GUARD {
                    return Some(me);
                }
                break;
            } else {
                // the list expects another thread to be running here
                if self.eligible(ht) {
                    want = Some(ht);
                }
                break;
            }
        }
        if let Some(w) = want {
            return Some(w);
        }
        if must_leave {
            // not in the list (a scripted schedule, or a candidate of the minimiser): a thread that blocks inside the
            // library is most likely waiting for one of the library's own threads; a library thread that goes idle
            // gives the baton back to whoever ran before it; otherwise the lowest runnable index
            (self.nc..n)
                .find(|i| *i != me && self.eligible(*i))
                .or_else(|| self.recent.iter().rev().find(|i| **i != me && self.eligible(**i)).copied())
                .or_else(|| (0..n).find(|i| *i != me && self.eligible(*i)))
        } else {
            Some(me)
        }
    }

    /// After a decision that lets `me` continue at tick `t` of call `call_no`: the tick at which `me` must
    /// enter the scheduler again (u64::MAX: not before the call ends).
    fn compute_wake(&mut self, spec: &RunSpec, me: usize, call_no: u32, t: u64) -> u64 {
        let w = self.compute_wake_policy(spec, me, call_no, t);
        let spin_target = (0..self.done.len()).any(|i| i != me && !self.done[i] && (self.in_call[i].is_some() || i >= self.nc));
        if spin_target {
            w.min(t.saturating_add(SPIN_GUARD))
        } else {
            w
        }
    }

    fn compute_wake_policy(&mut self, spec: &RunSpec, me: usize, call_no: u32, t: u64) -> u64 {
        // bound the cost of a run: after this many context switches a PRNG-driven run only switches between calls
        if self.switches > MAX_INTRA_SWITCHES && spec.policy != Policy::Replay {
            return u64::MAX;
        }
        match &spec.policy {
            Policy::Serial | Policy::CallAtomic { .. } => u64::MAX,
            Policy::RandomWalk { p } | Policy::Targeted { p, .. } | Policy::RaceDirected { p, .. } => {
                if self.done.len() < 2 {
                    return u64::MAX;
                }
                t.saturating_add(1).saturating_add(geometric(&mut self.rng, *p))
            }
            Policy::Pct { .. } => match self.change_points.iter().next() {
                Some(cp) => t.saturating_add(cp.saturating_sub(self.step).max(1)),
                None => u64::MAX,
            },
            Policy::Replay => {
                let n = self.done.len();
                let mut i = self.sw_i;
                loop {
                    let head = match spec.switches.get(i) {
                        Some(h) => *h,
                        None => return u64::MAX,
                    };
                    let ht = self.dec(head.thread);
                    if ht >= n || (self.done[ht] && ht != me) {
                        i += 1;
                        continue;
                    }
                    if ht != me {
                        // another thread is expected to run: yield at the next decision point (if it can run)
                        return if self.eligible(ht) { t + 1 } else { u64::MAX };
                    }
                    if head.call < call_no || (head.call == call_no && (head.tick as u64) <= t) {
                        return t + 1; // stale entry: let the scheduler pop it
                    }
                    if head.call == call_no {
                        return head.tick as u64;
                    }
                    return u64::MAX;
                }
            }
        }
    }
}

impl Shared {
    /// A decision point of thread `me`. Returns, once `me` holds the baton again, its next wake tick.
    fn decision(&self, me: usize, call_no: u32, tick: u64, kind: Kind, c: &TickCtx) -> u64 {
        let mut st = self.m.lock().unwrap();
        // account for the ticks that went by on the fast path since this thread last synchronised
        let delta = tick.saturating_sub(c.synced.get());
        c.synced.set(tick);
        st.step += delta.max(1);
        let tick32k = tick.min(u32::MAX as u64) as u32;
        if self.spec.policy != Policy::Replay && kind != Kind::Exit && self.spec.kill_step > 0 && st.step >= self.spec.kill_step {
            // the process dies here, in the middle of whatever it was doing; the position goes into the switch list
            let em = st.enc(me);
            st.rec.push(Sw { thread: em, call: call_no, tick: tick32k, to: KILL });
            st.log.u64(0xD1ED_0000 | me as u64);
            st.kill_now = true;
        }
        if st.kill_now {
            let mut rec = self.record(&st, "ok", None);
            rec["killed"] = json!(true);
            rec["start"] = json!(st.start);
            rec["switches"] = Value::Array(st.rec.iter().map(|s| json!([s.thread, s.call, s.tick, s.to])).collect());
            proc::item_finish(rec.to_string().as_bytes());
        }
        let site = match kind {
            Kind::Boundary => BOUNDARY,
            Kind::Tick(s) => s,
            Kind::Exit => EXITED,
            Kind::Blocked => BLOCKED,
            Kind::Yield => tick::BBLOCK,
        };
        if kind == Kind::Exit {
            st.done[me] = true;
            st.in_call[me] = None;
            if me >= self.n {
                // whoever is joining this library thread can go on
                let tag = JOIN_BASE + (me - self.n);
                for i in 0..st.blocked.len() {
                    if st.blocked[i] == Some(tag) {
                        st.blocked[i] = None;
                        st.deadline[i] = None;
                    }
                }
            }
            if me < self.n && st.done[..self.n].iter().all(|d| *d) {
                // the last caller is finished: the run is over, whatever the library's own threads are doing
                st.exit_join = Some((me, None));
                st.current = self.coord;
                self.cv[self.coord].notify_one();
                return u64::MAX;
            }
        }
        st.parked_site[me] = site;
        st.cur_call[me] = call_no;
        let tick32 = tick.min(u32::MAX as u64) as u32;
        // is this call still within the length its isolated evaluation had (then a yield is not a thread spinning for somebody)
        st.natural = match st.in_call[me] {
            Some(e) => tick <= 2 * self.pool.entries[e as usize].ticks as u64 + 10_000,
            None => false,
        };
        let next = st.decide(self.spec, me, (call_no, tick32), kind);
        if st.kill_now {
            st.log.u64(0xD1ED_0000 | me as u64);
            let mut rec = self.record(&st, "ok", None);
            rec["killed"] = json!(true);
            rec["start"] = json!(st.start);
            rec["switches"] = Value::Array(st.rec.iter().map(|s| json!([s.thread, s.call, s.tick, s.to])).collect());
            proc::item_finish(rec.to_string().as_bytes());
        }
        // the event log records what happened (switches, call completions), not how often the scheduler was
        // consulted: a PRNG-driven run and the replay of its switch list consult it at different ticks
        match next {
            Some(nx) if nx != me => {
                // (the site label is not part of the log: a replay does not track memory and would label a
                // switch after a shared access as an ordinary block tick)
                st.log.u64(((me as u64) << 40) | nx as u64);
                st.log.u64(((call_no as u64) << 32) | tick32 as u64);
                st.switches += 1;
                if st.recent.len() >= 16 {
                    st.recent.remove(0);
                }
                st.recent.push(me);
                let (em, en) = (st.enc(me), st.enc(nx));
                st.rec.push(Sw { thread: em, call: call_no, tick: tick32, to: en });
                let to_site = st.parked_site[nx];
                st.pairs[site][to_site] += 1;
                st.sched.u64(((me as u64) << 48) | ((nx as u64) << 40) | ((site as u64) << 32) | call_no as u64);
                st.sched.u64(tick);
                if matches!(kind, Kind::Tick(_) | Kind::Blocked | Kind::Yield) {
                    st.preempt_site[site] += 1;
                    st.f[5] += 1;
                    let inflight = st.in_call.iter().filter(|c| c.is_some()).count();
                    if inflight > st.max_inflight {
                        st.max_inflight = inflight;
                    }
                    // F7: the thread we switch to is inside / about to start the same expression with another placeholder
                    if let Some(mine) = st.in_call[me] {
                        let other = match st.in_call[nx] {
                            Some(o) => Some(o),
                            None => self.spec.clients.get(nx).and_then(|cl| cl.get(st.cur_call[nx] as usize).copied()),
                        };
                        if let Some(o) = other {
                            let (a, b) = (&self.pool.entries[mine as usize], &self.pool.entries[o as usize]);
                            if a.expr_id == b.expr_id && mine != o {
                                st.f[7] += 1;
                            }
                        }
                    }
                }
                if kind == Kind::Exit {
                    // This OS thread is finished. Its thread-local destructors must not run concurrently with
                    // the thread that takes over. If nobody is parked in the middle of a call, the thread really
                    // exits: the baton goes to the coordinator, which joins it (destructors run, nothing else
                    // does) and then passes the baton on to `nx`. Otherwise (a destructor might want a lock a
                    // parked thread holds, and outside a call the simulator cannot schedule around that) the OS
                    // thread is kept parked until the process ends and never runs its destructors.
                    if me >= self.n {
                        // an adopted library thread returns from its start routine: hand the baton on and let the OS
                        // thread end (somebody may be joining it)
                        st.current = nx;
                        self.cv[nx].notify_one();
                        return u64::MAX;
                    }
                    if st.in_call.iter().any(|x| x.is_some()) || st.helpers_alive() {
                        st.current = nx;
                        self.cv[nx].notify_one();
                        loop {
                            st = self.cv[me].wait(st).unwrap();
                        }
                    }
                    st.exit_join = Some((me, Some(nx)));
                    st.current = self.coord;
                    self.cv[self.coord].notify_one();
                    return u64::MAX;
                }
                st.current = nx;
                self.cv[nx].notify_one();
                while st.current != me {
                    st = self.cv[me].wait(st).unwrap();
                }
            }
            Some(_) => {
                // A yield at which the run stayed although other threads exist (they were held back after a file
                // operation, or in a timed wait whose timer the scheduler did not fire): a replay has neither holds nor
                // unfired timers and would hand over here. The list gets a marker (to = the thread itself).
                if kind == Kind::Yield && self.spec.policy != Policy::Replay && (0..st.done.len()).any(|i| i != me && !st.done[i] && (st.hold[i] > st.calls || st.deadline[i].is_some())) {
                    let em = st.enc(me);
                    st.rec.push(Sw { thread: em, call: call_no, tick: tick32, to: em });
                }
            }
            None => {
                match kind {
                    Kind::Exit => {
                        // nobody left to run: back to the coordinator (which also notices stuck threads)
                        if me < self.n {
                            st.exit_join = Some((me, None));
                        }
                        st.current = self.coord;
                        self.cv[self.coord].notify_one();
                    }
                    Kind::Blocked if st.deadline[me].is_some() => {
                        // nobody else can run and this wait is timed: its timer fires (the caller sees that the
                        // word was not released and reports a timeout)
                    }
                    Kind::Blocked => {
                        // every other thread is finished or blocked as well. Either a deadlock inside the code under
                        // test, or the wake-up will come from a thread the simulator does not own (one the library
                        // spawned itself): wait, in real time and bounded, for one of the futex words to change.
                        let (st2, who) = self.rescue(st);
                        st = st2;
                        match who {
                            Some(i) if i == me => {}
                            Some(i) => {
                                st.current = i;
                                self.cv[i].notify_one();
                                while st.current != me {
                                    st = self.cv[me].wait(st).unwrap();
                                }
                            }
                            None => {
                                drop(st);
                                finish_inconclusive("deadlock");
                            }
                        }
                    }
                    _ => {}
                }
            }
        }
        if kind == Kind::Exit {
            return u64::MAX;
        }
        st.compute_wake(self.spec, me, call_no, tick)
    }

    /// Nobody is eligible. Poll (1 ms steps, at most 0.4 s) the futex words parked threads wait on; if one no longer
    /// holds the value its waiter expected, that waiter may run again. Timing-dependent, but it only ever replaces
    /// "no verdict" by progress; on code that spawns no threads of its own it never finds anything.
    fn rescue<'a>(&'a self, mut st: std::sync::MutexGuard<'a, St>) -> (std::sync::MutexGuard<'a, St>, Option<usize>) {
        for _ in 0..400 {
            for i in 0..st.blocked.len() {
                if let Some(addr) = st.blocked[i] {
                    if addr < 4096 {
                        continue; // a sleep, not a futex word
                    }
                    let cur = unsafe { (*(addr as *const std::sync::atomic::AtomicU32)).load(Ordering::SeqCst) };
                    if cur != st.blocked_val[i] {
                        st.blocked[i] = None;
                        st.rescued += 1;
                        return (st, Some(i));
                    }
                }
            }
            drop(st);
            std::thread::sleep(std::time::Duration::from_millis(1));
            st = self.m.lock().unwrap();
        }
        (st, None)
    }

    /// `me` is about to sleep on the futex word at `addr`: park it in the simulator instead.
    /// `deadline`: virtual monotonic time at which the wait ends by itself. Returns false if it ended that way.
    fn block_on(&self, c: &TickCtx, addr: usize, expected: u32, deadline: Option<i64>) -> bool {
        let me = c.me.get();
        // a blocking operation is an event of its own on the thread's time line: it gets its own tick number, so that
        // "pre-empted at tick t" and "went to sleep right after tick t" are different positions in a switch list
        c.ticks.set(c.ticks.get() + 1);
        {
            let mut st = self.m.lock().unwrap();
            st.blocked[me] = Some(addr);
            st.blocked_val[me] = expected;
            st.deadline[me] = deadline;
            if addr >= 4096 {
                st.futex_waits += 1;
            } else {
                st.sleeps += 1;
            }
        }
        let wake = self.decision(me, c.call_no.get(), c.ticks.get(), Kind::Blocked, c);
        c.wake.set(wake);
        let mut st = self.m.lock().unwrap();
        let d = st.deadline[me].take();
        if st.blocked[me].take().is_some() {
            // still parked on the word: the scheduler let the timer fire; virtual time moves to the deadline
            if let Some(d) = d {
                if d > st.vmono {
                    let adv = d - st.vmono;
                    st.vmono += adv;
                    st.vreal += adv;
                }
                if addr >= 4096 {
                    st.timeouts += 1;
                }
                st.log.u64(0x71AE_0000 | me as u64);
            }
            return false;
        }
        true
    }

    /// virtual monotonic "now" (ns since the run's monotonic base)
    fn vnow(&self) -> i64 {
        self.m.lock().unwrap().vmono
    }

    /// futex wake: make up to `n` threads parked on `addr` runnable again (lowest index first)
    fn wake(&self, addr: usize, n: u32) -> i64 {
        let mut st = self.m.lock().unwrap();
        let mut woken = 0;
        for i in 0..st.blocked.len() {
            if woken >= n as i64 {
                break;
            }
            if st.blocked[i] == Some(addr) {
                st.blocked[i] = None;
                st.deadline[i] = None;
                woken += 1;
            }
        }
        woken
    }

    fn begin_call(&self, me: usize, call_no: u32, entry: u32) -> u64 {
        let mut st = self.m.lock().unwrap();
        st.in_call[me] = Some(entry);
        st.compute_wake(self.spec, me, call_no, 0)
    }

    fn complete(&self, me: usize, call_no: u32, entry: u32, out: Outcome, ticks: u64, trace: u64, c: &TickCtx) {
        let mut st = self.m.lock().unwrap();
        let e = &self.pool.entries[entry as usize];
        st.in_call[me] = None;
        st.calls += 1;
        st.ticks += ticks;
        st.step += ticks.saturating_sub(c.synced.get());
        st.block_ticks += c.block_ticks.replace(0);
        st.shared_hits += c.shared_hits.replace(0);
        // no allocation on the client thread between two library calls beyond what the call itself needs:
        // the harness must not perturb allocator reuse patterns a change under test might (wrongly) depend on
        let oh = out.hash64();
        st.log.u64(0xC0DE_0000_0000_0000 | ((me as u64) << 32) | call_no as u64);
        st.log.u64(oh);
        st.log.u64(ticks);
        st.log.u64(trace);
        st.results.push((me as u32, call_no, entry, oh));
        if ticks != e.ticks as u64 || trace != e.trace {
            st.work_differs += 1;
        }
        if e.sensitive {
            st.sens_calls += 1;
        }
        // fault kinds that actually fired
        if st.err_pending > 0 {
            st.f[1] += st.err_pending;
            st.err_pending = 0;
        }
        if st.panic_pending > 0 {
            st.f[2] += st.panic_pending;
            st.panic_pending = 0;
        }
        match e.oracle {
            Outcome::Err(..) => st.err_pending += 1,
            Outcome::Panic(_) => st.panic_pending += 1,
            _ => {}
        }
        {
            let (first, diverse) = st.seen_expr[e.expr_id as usize];
            let flipped = diverse || (first != u32::MAX && first != entry);
            if first == u32::MAX {
                st.seen_expr[e.expr_id as usize].0 = entry;
            } else if first != entry {
                st.seen_expr[e.expr_id as usize].1 = true;
            }
            if flipped {
                st.f[3] += 1;
            }
        }
        {
            let bit = 1u8 << (e.call.ev as u8);
            let m = st.seen_text[e.text_id as usize];
            st.seen_text[e.text_id as usize] = m | bit;
            if m & !bit != 0 {
                st.f[4] += 1;
            }
        }
        if out != e.oracle {
            let kind = format!("{}_vs_{}", e.oracle.class(), out.class());
            let v = json!({
                "client": me, "call_no": call_no, "entry": entry,
                "call": e.call.to_json(),
                "expected": e.oracle.encode(), "observed": out.encode(), "kind": kind,
            });
            let rec = self.record(&st, "violation", Some(v));
            proc::item_finish(rec.to_string().as_bytes());
        }
    }

    fn record(&self, st: &St, status: &str, violation: Option<Value>) -> Value {
        let mut pairs: Vec<Value> = Vec::new();
        for a in 0..NSITES {
            for b in 0..NSITES {
                if st.pairs[a][b] > 0 {
                    pairs.push(json!([a, b, st.pairs[a][b]]));
                }
            }
        }
        let mut v = json!({
            "st": status,
            "h": format!("{:016x}", st.log.finish()),
            "sh": format!("{:016x}", st.sched.finish()),
            "calls": st.calls, "ticks": st.ticks, "bt": st.block_ticks, "shh": st.shared_hits, "fw": st.futex_waits, "rsc": st.rescued,
            "steps": st.step, "sw": st.switches,
            "f": st.f[1..11].to_vec(),
            "cr": st.clock_reads,
            "ps": st.preempt_site.to_vec(),
            "pairs": pairs,
            "wd": st.work_differs,
            "sens": st.sens_calls,
            "pf": self.spec.policy.family(),
            "pn": self.spec.policy.name(),
            "nt": self.n, "hl": st.helpers, "jn": st.joins, "fo": crate::disk::FILE_OPS.load(Ordering::Relaxed), "iof": crate::disk::io_injected(), "iop": (self.spec.io_fault != 0) as u64, "fp": st.file_points, "fh": st.file_holds, "tmo": st.timeouts, "slp": st.sleeps, "yld": st.yields,
            "mi": st.max_inflight,
        });
        if let Some(x) = violation {
            v["violation"] = x;
        }
        if self.spec.want_trace || status == "violation" {
            v["start"] = json!(st.start);
            v["switches"] = Value::Array(st.rec.iter().map(|s| json!([s.thread, s.call, s.tick, s.to])).collect());
        }
        v
    }
}

fn client_main(sh: &'static Shared, me: usize, start_call: usize) {
    T.with(|c| {
        c.mode.set(tick::MODE_SIM);
        c.me.set(me);
        c.in_call.set(false);
        c.in_hook.set(false);
        c.cap.set(call_step_cap());
        c.wake.set(u64::MAX);
        c.target_site.set(match &sh.spec.policy {
            Policy::Targeted { site, .. } => *site,
            _ => usize::MAX,
        });
        c.track_mem.set(matches!(sh.spec.policy, Policy::RaceDirected { .. }));
        tick::note_stack(c, STACK_BYTES);
        if limit_cpus(sh.spec.cpu_limits.get(me).copied().unwrap_or(0)) && start_call == 0 {
            sh.m.lock().unwrap().f[10] += 1;
        }
        set_thread_hook(Some(tick::source_hook));
        {
            let mut st = sh.m.lock().unwrap();
            st.ready[me] = true;
            sh.cv[sh.coord].notify_one();
            while st.current != me {
                st = sh.cv[me].wait(st).unwrap();
            }
        }
        let calls = &sh.spec.clients[me];
        let churn = &sh.spec.churn[me];
        let mut k = start_call;
        let mut churn_pending = false;
        while k < calls.len() {
            tick::begin_call(c, k as u32);
            if let Some(js) = sh.spec.clock_jumps.get(me) {
                for (kk, dm, dr) in js.iter() {
                    if *kk as usize == k {
                        let mut st = sh.m.lock().unwrap();
                        st.vmono += (*dm).max(0);
                        st.vreal += *dr;
                        st.f[8] += 1;
                        st.log.u64(0xC10C_0000 | me as u64);
                    }
                }
            }
            sh.decision(me, k as u32, 0, Kind::Boundary, c);
            let entry = calls[k];
            let e = &sh.pool.entries[entry as usize];
            let wake = sh.begin_call(me, k as u32, entry);
            c.wake.set(wake);
            let depth_kb = sh.spec.stack_depths.get(me).and_then(|d| d.iter().find(|(kk, _)| *kk as usize == k).map(|(_, kb)| *kb)).unwrap_or(0);
            let mut out_slot: Option<Outcome> = None;
            if depth_kb > 0 {
                sh.m.lock().unwrap().f[9] += 1;
            }
            call_at_depth(depth_kb as usize * 1024, &mut || {
                c.in_call.set(true);
                out_slot = Some(exec_call(&e.call));
                c.in_call.set(false);
            });
            let out = out_slot.unwrap_or(Outcome::Panic("harness: call did not run".into()));
            sh.complete(me, k as u32, entry, out, c.ticks.get(), c.trace.get(), c);
            k += 1;
            if k < calls.len() && (churn_pending || churn.contains(&((k - 1) as u32))) {
                // retire this OS thread; the coordinator joins it (TLS destructors run) and spawns the successor.
                // Thread-local destructors run outside any call, where the simulator cannot turn a blocking lock
                // into a scheduling decision: if another caller is parked in the middle of a call (possibly inside a
                // critical section a destructor wants), the retirement is deferred to this thread's next boundary
                // at which nobody is mid-call.
                let mut st = sh.m.lock().unwrap();
                if st.in_call.iter().any(|x| x.is_some()) || st.helpers_alive() {
                    churn_pending = true;
                    continue;
                }
                set_thread_hook(None);
                c.mode.set(tick::MODE_OFF);
                st.f[6] += 1;
                st.churn_req = Some((me, k));
                st.ready[me] = false;
                st.current = sh.coord;
                sh.cv[sh.coord].notify_one();
                return;
            }
        }
        set_thread_hook(None);
        tick::begin_call(c, calls.len() as u32);
        sh.decision(me, calls.len() as u32, 0, Kind::Exit, c);
        c.mode.set(tick::MODE_OFF);
    });
}

fn spawn_client(sh: &'static Shared, me: usize, start_call: usize) -> std::thread::JoinHandle<()> {
    let h = std::thread::Builder::new()
        .stack_size(STACK_BYTES)
        .spawn(move || client_main(sh, me, start_call))
        .unwrap_or_else(|_| proc::harness_die("cannot spawn client thread"));
    let mut st = sh.m.lock().unwrap();
    while !st.ready[me] {
        st = sh.cv[sh.coord].wait(st).unwrap();
    }
    drop(st);
    h
}

/// Execute one simulated run in this (freshly forked) process. Never returns.
pub fn run_child(pool: &Pool, spec: &RunSpec) -> ! {
    let t_start = std::time::Instant::now();
    silence_stderr();
    crate::disk::IO_FAULT.store(spec.io_fault, Ordering::Relaxed);
    // Safety of the 'static casts: the process ends inside this function.
    let pool: &'static Pool = unsafe { &*(pool as *const Pool) };
    let spec: &'static RunSpec = unsafe { &*(spec as *const RunSpec) };
    let n = spec.clients.len();
    let cap = n + MAX_HELPERS;
    let mut rng = Rng::new(mix(spec.seed, 0x7363_6865_64));
    let mut order: Vec<usize> = (0..n).collect();
    rng.shuffle(&mut order);
    let mut prio: Vec<i64> = (0..n as i64).map(|i| 1000 + i).collect();
    rng.shuffle(&mut prio);
    prio.resize(cap, 0);
    let mut done0 = vec![false; n];
    done0.resize(cap, true);
    // how readily a timed wait is ended early by the scheduler: a knob of the run
    let timer_q = [0.02, 0.1, 0.3, 1.0][(mix(spec.seed, 0x74_696d_6572) % 4) as usize];
    let mut change_points = BTreeSet::new();
    if let Policy::Pct { k } = &spec.policy {
        for _ in 0..*k {
            change_points.insert(1 + rng.below(spec.est_steps.max(1) as usize) as u64);
        }
    }
    let st = St {
        current: usize::MAX,
        start: 0,
        ready: vec![false; cap],
        done: done0,
        blocked: vec![None; cap],
        blocked_val: vec![0; cap],
        deadline: vec![None; cap],
        allow_timers: spec.policy == Policy::Replay,
        timer_q,
        timeouts: 0,
        sleeps: 0,
        yields: 0,
        nc: n,
        helpers: 0,
        helper_pt: vec![0; MAX_HELPERS],
        recent: Vec::with_capacity(16),
        kill_now: false,
        hold: vec![0; cap],
        file_points: 0,
        file_holds: 0,
        natural: false,
        yielding: false,
        joins: 0,
        rescued: 0,
        in_call: vec![None; cap],
        cur_call: vec![0; cap],
        parked_site: vec![BOUNDARY; cap],
        churn_req: None,
        exit_join: None,
        rng,
        order,
        prio,
        low_prio: 0,
        change_points,
        sw_i: 0,
        step: 0,
        log: Hasher64::new(),
        sched: Hasher64::new(),
        rec: Vec::with_capacity(4096),
        results: Vec::with_capacity(spec.clients.iter().map(|c| c.len()).sum::<usize>() + 1),
        calls: 0,
        ticks: 0,
        block_ticks: 0,
        shared_hits: 0,
        switches: 0,
        futex_waits: 0,
        vmono: 0,
        vreal: 0,
        clock_reads: 0,
        f: [0; 11],
        preempt_site: [0; NSITES],
        pairs: [[0; NSITES]; NSITES],
        work_differs: 0,
        sens_calls: 0,
        err_pending: 0,
        panic_pending: 0,
        seen_expr: vec![(u32::MAX, false); pool.by_expr.len()],
        seen_text: vec![0u8; pool.n_texts.max(1)],
        max_inflight: 0,
    };
    let sh: &'static Shared = Box::leak(Box::new(Shared {
        m: Mutex::new(st),
        cv: (0..cap + 1).map(|_| Condvar::new()).collect(),
        coord: cap,
        adopt_cv: Condvar::new(),
        pool,
        spec,
        n,
    }));
    RUN_SHARED.store(sh as *const Shared as *mut Shared, Ordering::Release);
    // spawn clients one at a time; each is parked before the next is created
    let mut handles: Vec<Option<std::thread::JoinHandle<()>>> = Vec::new();
    for i in 0..n {
        handles.push(Some(spawn_client(sh, i, 0)));
    }
    let us_spawn = t_start.elapsed().as_micros() as u64;
    {
        let mut st = sh.m.lock().unwrap();
        let start = match &spec.policy {
            Policy::Replay => {
                let s = spec.start as usize;
                if s < n {
                    s
                } else {
                    0
                }
            }
            Policy::Serial => st.order[0],
            Policy::Pct { .. } => (0..n).max_by_key(|i| st.prio[*i]).unwrap_or(0),
            _ => st.rng.below(n),
        };
        st.log.u64(0x5354_4152_5400 | start as u64);
        st.current = start;
        st.start = start as u32;
        sh.cv[start].notify_one();
        loop {
            while st.current != cap {
                st = sh.cv[cap].wait(st).unwrap();
            }
            if let Some((c, k)) = st.churn_req.take() {
                drop(st);
                if let Some(h) = handles[c].take() {
                    let _ = h.join();
                }
                handles[c] = Some(spawn_client(sh, c, k));
                st = sh.m.lock().unwrap();
                st.log.u64(0xC4_0000 | c as u64);
                st.current = c;
                sh.cv[c].notify_one();
                continue;
            }
            if let Some((c, next)) = st.exit_join.take() {
                // a client finished while nobody was mid-call: let its OS thread terminate (TLS destructors run
                // now, alone), then pass the baton on
                let blocked_mid_call = st.in_call.iter().any(|x| x.is_some()) || st.helpers_alive();
                drop(st);
                if !blocked_mid_call {
                    if let Some(h) = handles[c].take() {
                        let _ = h.join();
                    }
                }
                st = sh.m.lock().unwrap();
                if let Some(nx) = next {
                    st.current = nx;
                    sh.cv[nx].notify_one();
                    continue;
                }
            }
            if st.done[..n].iter().all(|d| *d) {
                break;
            }
            // the last runnable thread exited while others are still parked on a futex nobody will wake
            st.allow_timers = true;
            match (0..cap).find(|i| st.eligible(*i)) {
                Some(nx) => {
                    st.current = nx;
                    sh.cv[nx].notify_one();
                }
                None => {
                    let (st2, who) = sh.rescue(st);
                    st = st2;
                    match who {
                        Some(i) => {
                            st.current = i;
                            sh.cv[i].notify_one();
                        }
                        None => {
                            drop(st);
                            finish_inconclusive("deadlock");
                        }
                    }
                }
            }
        }
        // history check over the record: identical calls returned identical outcomes
        let mut by_entry: BTreeMap<u32, u64> = BTreeMap::new();
        for (c, k, e, oh) in st.results.iter() {
            if let Some(prev) = by_entry.insert(*e, *oh) {
                if prev != *oh {
                    let v = json!({"client": c, "call_no": k, "entry": e, "kind": "history_inconsistent",
                                   "call": pool.entries[*e as usize].call.to_json(),
                                   "expected": pool.entries[*e as usize].oracle.encode(), "observed": "differs between two identical calls"});
                    let rec = sh.record(&st, "violation", Some(v));
                    proc::item_finish(rec.to_string().as_bytes());
                }
            }
        }
        let mut rec = sh.record(&st, "ok", None);
        rec["us_spawn"] = json!(us_spawn);
        rec["us_total"] = json!(t_start.elapsed().as_micros() as u64);
        proc::item_finish(rec.to_string().as_bytes());
    }
}

// ---------------------------------------------------------------------------
// JSON forms

pub fn switches_to_json(s: &[Sw]) -> Value {
    Value::Array(s.iter().map(|s| json!([s.thread, s.call, s.tick, s.to])).collect())
}

pub fn switches_from_json(v: &Value) -> Option<Vec<Sw>> {
    let a = v.as_array()?;
    let mut out = Vec::new();
    for x in a {
        let q = x.as_array()?;
        if q.len() != 4 {
            return None;
        }
        out.push(Sw {
            thread: q[0].as_u64()? as u32,
            call: q[1].as_u64()? as u32,
            tick: q[2].as_u64()? as u32,
            to: q[3].as_u64()? as u32,
        });
    }
    Some(out)
}
