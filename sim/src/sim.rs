//! The simulator proper: real OS threads, one runnable at a time (baton), every scheduling choice
//! taken from the run's PRNG (or from a recorded switch list when replaying).
//!
//! Runs inside a freshly forked process (see proc.rs); ends the process through `item_finish`.

use crate::gen::Pool;
use crate::oracle::{silence_stderr, STACK_BYTES};
use crate::proc;
use crate::types::*;
use serde_json::{json, Value};
use std::cell::Cell;
use std::collections::{BTreeMap, BTreeSet};
use std::sync::{Condvar, Mutex};
use string_calculator::verif_hooks::{set_thread_hook, Site, SITE_COUNT};

pub const BOUNDARY: usize = SITE_COUNT; // pseudo-site: between calls
pub const EXITED: usize = SITE_COUNT + 1; // pseudo-site: client finished
pub const NSITES: usize = SITE_COUNT + 2;
pub const SITE_NAMES: [&str; NSITES] = [
    "ApiEnter", "ApiLexed", "ApiParsed", "TokNext", "TokScan", "SupScan", "ParseNext", "ParseAtom", "ParseClimb",
    "ParseArgs", "EvalEnter", "EvalLoop", "boundary", "exit",
];

pub const CALL_STEP_CAP: u64 = 1_000_000;

#[derive(Clone, Debug, PartialEq)]
pub enum Policy {
    /// threads run to completion one after another, random order
    Serial,
    /// switch only between calls
    CallAtomic { q: f64 },
    /// at every tick switch with probability p
    RandomWalk { p: f64 },
    /// random priorities with k priority-change points
    Pct { k: usize },
    /// always pre-empt at one site kind, otherwise random walk with p
    Targeted { site: usize, p: f64 },
    /// follow `RunSpec::switches`
    Replay,
}

impl Policy {
    pub fn name(&self) -> String {
        match self {
            Policy::Serial => "serial".into(),
            Policy::CallAtomic { q } => format!("call_atomic({})", q),
            Policy::RandomWalk { p } => format!("random_walk({})", p),
            Policy::Pct { k } => format!("pct({})", k),
            Policy::Targeted { site, p } => format!("targeted({},{})", SITE_NAMES[*site], p),
            Policy::Replay => "replay".into(),
        }
    }
    pub fn family(&self) -> &'static str {
        match self {
            Policy::Serial => "serial",
            Policy::CallAtomic { .. } => "call_atomic",
            Policy::RandomWalk { .. } => "random_walk",
            Policy::Pct { .. } => "pct",
            Policy::Targeted { .. } => "targeted",
            Policy::Replay => "replay",
        }
    }
    pub fn intra_call(&self) -> bool {
        matches!(self, Policy::RandomWalk { .. } | Policy::Pct { .. } | Policy::Targeted { .. })
    }
}

/// One context switch: `thread`, positioned at decision point (`call`, `tick`), hands over to `to`.
/// tick 0 = the boundary before call number `call`; call == number of calls = the thread's exit.
#[derive(Clone, Copy, Debug, PartialEq, Eq)]
pub struct Sw {
    pub thread: u32,
    pub call: u32,
    pub tick: u32,
    pub to: u32,
}

#[derive(Clone, Debug)]
pub struct RunSpec {
    pub seed: u64,
    /// per logical client: pool entry indices, in call order
    pub clients: Vec<Vec<u32>>,
    /// per logical client: call numbers after which the OS thread is retired and replaced
    pub churn: Vec<Vec<u32>>,
    pub policy: Policy,
    pub start: u32,
    pub switches: Vec<Sw>,
    /// expected total number of decision points (for PCT change points)
    pub est_steps: u64,
    pub want_trace: bool,
    pub faults_enabled: Vec<&'static str>,
}

impl RunSpec {
    pub fn total_calls(&self) -> usize {
        self.clients.iter().map(|c| c.len()).sum()
    }
}

#[derive(Clone, Copy, PartialEq)]
enum Kind {
    Boundary,
    Tick(usize),
    Exit,
}

struct St {
    current: usize,
    start: u32,
    ready: Vec<bool>,
    done: Vec<bool>,
    in_call: Vec<Option<u32>>,
    cur_call: Vec<u32>,
    parked_site: Vec<usize>,
    churn_req: Option<(usize, usize)>,
    rng: Rng,
    // policy state
    order: Vec<usize>,
    prio: Vec<i64>,
    low_prio: i64,
    change_points: BTreeSet<u64>,
    sw_i: usize,
    // record
    step: u64,
    log: Hasher64,
    sched: Hasher64,
    rec: Vec<Sw>,
    results: Vec<(u32, u32, u32, u64)>, // client, call_no, entry, outcome hash
    // stats
    calls: u64,
    ticks: u64,
    switches: u64,
    f: [u64; 8],
    preempt_site: [u64; NSITES],
    pairs: [[u64; NSITES]; NSITES],
    work_differs: u64,
    sens_calls: u64,
    err_pending: u64,
    panic_pending: u64,
    // per expression id: first entry seen (u32::MAX = none), and whether two different entries were seen
    seen_expr: Vec<(u32, bool)>,
    // per text id: mask of evaluators that evaluated it
    seen_text: Vec<u8>,
    max_inflight: usize,
}

struct Shared {
    m: Mutex<St>,
    cv: Vec<Condvar>,
    pool: &'static Pool,
    spec: &'static RunSpec,
    n: usize,
}

struct ClientCtx {
    sh: &'static Shared,
    me: usize,
    call_no: Cell<u32>,
    ticks: Cell<u64>,
    trace: Cell<u64>,
}

thread_local! {
    static CTX: Cell<*const ClientCtx> = const { Cell::new(std::ptr::null()) };
}

fn sim_hook(site: Site) {
    let p = CTX.with(|c| c.get());
    if p.is_null() {
        return;
    }
    let ctx = unsafe { &*p };
    let t = ctx.ticks.get() + 1;
    ctx.ticks.set(t);
    let mut h = Hasher64(ctx.trace.get());
    h.u64(site as u64 + 1);
    ctx.trace.set(h.0);
    if t > CALL_STEP_CAP {
        finish_inconclusive(ctx.sh, "call_step_cap");
    }
    ctx.sh.decision(ctx.me, ctx.call_no.get(), t as u32, Kind::Tick(site as usize));
}

fn finish_inconclusive(sh: &Shared, why: &str) -> ! {
    let _ = sh;
    proc::item_finish(json!({"st": "inconclusive", "why": why}).to_string().as_bytes())
}

impl St {
    fn runnable_others(&self, me: usize) -> Vec<usize> {
        (0..self.done.len()).filter(|i| *i != me && !self.done[*i]).collect()
    }

    fn random_other(&mut self, me: usize) -> Option<usize> {
        let o = self.runnable_others(me);
        if o.is_empty() {
            None
        } else {
            Some(o[self.rng.below(o.len())])
        }
    }

    /// Who runs next. `None` only at Exit when nobody is left.
    fn decide(&mut self, spec: &RunSpec, me: usize, pos: (u32, u32), kind: Kind) -> Option<usize> {
        let exit = kind == Kind::Exit;
        match &spec.policy {
            Policy::Replay => self.decide_replay(spec, me, pos, exit),
            Policy::Serial => {
                if exit {
                    let order = self.order.clone();
                    order.into_iter().find(|i| !self.done[*i])
                } else {
                    Some(me)
                }
            }
            Policy::CallAtomic { q } => match kind {
                Kind::Exit => self.random_other(me),
                Kind::Boundary => {
                    if self.rng.chance(*q) {
                        Some(self.random_other(me).unwrap_or(me))
                    } else {
                        Some(me)
                    }
                }
                Kind::Tick(_) => Some(me),
            },
            Policy::RandomWalk { p } => match kind {
                Kind::Exit => self.random_other(me),
                Kind::Boundary => {
                    if self.rng.chance(0.5) {
                        Some(self.random_other(me).unwrap_or(me))
                    } else {
                        Some(me)
                    }
                }
                Kind::Tick(_) => {
                    if self.rng.chance(*p) {
                        Some(self.random_other(me).unwrap_or(me))
                    } else {
                        Some(me)
                    }
                }
            },
            Policy::Targeted { site, p } => match kind {
                Kind::Exit => self.random_other(me),
                Kind::Boundary => {
                    if self.rng.chance(0.3) {
                        Some(self.random_other(me).unwrap_or(me))
                    } else {
                        Some(me)
                    }
                }
                Kind::Tick(s) => {
                    if s == *site || self.rng.chance(*p) {
                        Some(self.random_other(me).unwrap_or(me))
                    } else {
                        Some(me)
                    }
                }
            },
            Policy::Pct { .. } => {
                if self.change_points.contains(&self.step) {
                    self.low_prio -= 1;
                    self.prio[me] = self.low_prio;
                }
                let mut best: Option<usize> = None;
                for i in 0..self.done.len() {
                    if self.done[i] || (exit && i == me) {
                        continue;
                    }
                    if best.map_or(true, |b| self.prio[i] > self.prio[b]) {
                        best = Some(i);
                    }
                }
                best
            }
        }
    }

    fn decide_replay(&mut self, spec: &RunSpec, me: usize, pos: (u32, u32), exit: bool) -> Option<usize> {
        let n = self.done.len();
        let mut want: Option<usize> = None;
        loop {
            let head = match spec.switches.get(self.sw_i) {
                Some(h) => *h,
                None => break,
            };
            let ht = head.thread as usize;
            if ht >= n || (self.done[ht] && ht != me) {
                self.sw_i += 1;
                continue;
            }
            if ht == me {
                let hp = (head.call, head.tick);
                if hp < pos {
                    self.sw_i += 1;
                    continue;
                }
                if hp == pos {
                    self.sw_i += 1;
                    let to = head.to as usize;
                    if to < n && !self.done[to] && to != me {
                        return Some(to);
                    }
                    continue;
                }
                break; // not yet
            } else {
                // the list expects another thread to be running here
                want = Some(ht);
                break;
            }
        }
        if let Some(w) = want {
            return Some(w);
        }
        if exit {
            (0..n).find(|i| !self.done[*i] && *i != me)
        } else {
            Some(me)
        }
    }
}

impl Shared {
    fn decision(&self, me: usize, call_no: u32, tick: u32, kind: Kind) {
        let mut st = self.m.lock().unwrap();
        st.step += 1;
        let site = match kind {
            Kind::Boundary => BOUNDARY,
            Kind::Tick(s) => s,
            Kind::Exit => EXITED,
        };
        if kind == Kind::Exit {
            st.done[me] = true;
            st.in_call[me] = None;
        }
        st.parked_site[me] = site;
        st.cur_call[me] = call_no;
        let next = st.decide(self.spec, me, (call_no, tick), kind);
        let step = st.step;
        st.log.u64(step);
        st.log.u64(((me as u64) << 40) | ((site as u64) << 32) | next.map_or(0xffff, |x| x as u64));
        st.log.u64(((call_no as u64) << 32) | tick as u64);
        match next {
            Some(nx) if nx != me => {
                st.switches += 1;
                st.rec.push(Sw { thread: me as u32, call: call_no, tick, to: nx as u32 });
                let to_site = st.parked_site[nx];
                st.pairs[site][to_site] += 1;
                st.sched.u64(((me as u64) << 48) | ((nx as u64) << 40) | ((site as u64) << 32) | call_no as u64);
                st.sched.u64(tick as u64);
                if let Kind::Tick(_) = kind {
                    st.preempt_site[site] += 1;
                    st.f[5] += 1;
                    let inflight = st.in_call.iter().filter(|c| c.is_some()).count();
                    if inflight > st.max_inflight {
                        st.max_inflight = inflight;
                    }
                    // F7: the thread we switch to is inside / about to start the same expression with another placeholder
                    if let Some(mine) = st.in_call[me] {
                        let other = match st.in_call[nx] {
                            Some(o) => Some(o),
                            None => self.spec.clients[nx].get(st.cur_call[nx] as usize).copied(),
                        };
                        if let Some(o) = other {
                            let (a, b) = (&self.pool.entries[mine as usize], &self.pool.entries[o as usize]);
                            if a.expr_id == b.expr_id && mine != o {
                                st.f[7] += 1;
                            }
                        }
                    }
                }
                st.current = nx;
                self.cv[nx].notify_one();
                if kind != Kind::Exit {
                    while st.current != me {
                        st = self.cv[me].wait(st).unwrap();
                    }
                }
            }
            Some(_) => {}
            None => {
                // Exit and nobody left: back to the coordinator
                st.current = self.n;
                self.cv[self.n].notify_one();
            }
        }
    }

    fn begin_call(&self, me: usize, entry: u32) {
        let mut st = self.m.lock().unwrap();
        st.in_call[me] = Some(entry);
    }

    fn complete(&self, me: usize, call_no: u32, entry: u32, out: Outcome, ticks: u64, trace: u64) {
        let mut st = self.m.lock().unwrap();
        let e = &self.pool.entries[entry as usize];
        st.in_call[me] = None;
        st.calls += 1;
        st.ticks += ticks;
        // no allocation on the client thread between two library calls beyond what the call itself needs:
        // the harness must not perturb allocator reuse patterns a change under test might (wrongly) depend on
        let oh = out.hash64();
        st.log.u64(0xC0DE_0000_0000_0000 | ((me as u64) << 32) | call_no as u64);
        st.log.u64(oh);
        st.log.u64(ticks);
        st.log.u64(trace);
        st.results.push((me as u32, call_no, entry, oh));
        if ticks != e.ticks as u64 || trace != e.trace {
            st.work_differs += 1;
        }
        if e.sensitive {
            st.sens_calls += 1;
        }
        // fault kinds that actually fired
        if st.err_pending > 0 {
            st.f[1] += st.err_pending;
            st.err_pending = 0;
        }
        if st.panic_pending > 0 {
            st.f[2] += st.panic_pending;
            st.panic_pending = 0;
        }
        match e.oracle {
            Outcome::Err(..) => st.err_pending += 1,
            Outcome::Panic(_) => st.panic_pending += 1,
            _ => {}
        }
        {
            let (first, diverse) = st.seen_expr[e.expr_id as usize];
            let flipped = diverse || (first != u32::MAX && first != entry);
            if first == u32::MAX {
                st.seen_expr[e.expr_id as usize].0 = entry;
            } else if first != entry {
                st.seen_expr[e.expr_id as usize].1 = true;
            }
            if flipped {
                st.f[3] += 1;
            }
        }
        {
            let bit = 1u8 << (e.call.ev as u8);
            let m = st.seen_text[e.text_id as usize];
            st.seen_text[e.text_id as usize] = m | bit;
            if m & !bit != 0 {
                st.f[4] += 1;
            }
        }
        if out != e.oracle {
            let kind = format!("{}_vs_{}", e.oracle.class(), out.class());
            let v = json!({
                "client": me, "call_no": call_no, "entry": entry,
                "call": e.call.to_json(),
                "expected": e.oracle.encode(), "observed": out.encode(), "kind": kind,
            });
            let rec = self.record(&st, "violation", Some(v));
            proc::item_finish(rec.to_string().as_bytes());
        }
    }

    fn record(&self, st: &St, status: &str, violation: Option<Value>) -> Value {
        let mut pairs: Vec<Value> = Vec::new();
        for a in 0..NSITES {
            for b in 0..NSITES {
                if st.pairs[a][b] > 0 {
                    pairs.push(json!([a, b, st.pairs[a][b]]));
                }
            }
        }
        let mut v = json!({
            "st": status,
            "h": format!("{:016x}", st.log.finish()),
            "sh": format!("{:016x}", st.sched.finish()),
            "calls": st.calls, "ticks": st.ticks, "steps": st.step, "sw": st.switches,
            "f": st.f[1..8].to_vec(),
            "ps": st.preempt_site.to_vec(),
            "pairs": pairs,
            "wd": st.work_differs,
            "sens": st.sens_calls,
            "pf": self.spec.policy.family(),
            "pn": self.spec.policy.name(),
            "nt": self.n,
            "mi": st.max_inflight,
        });
        if let Some(x) = violation {
            v["violation"] = x;
        }
        if violation_or_trace(status, self.spec.want_trace) {
            v["start"] = json!(st.start);
            v["switches"] = Value::Array(st.rec.iter().map(|s| json!([s.thread, s.call, s.tick, s.to])).collect());
        }
        v
    }
}

fn violation_or_trace(status: &str, want: bool) -> bool {
    want || status == "violation"
}

fn client_main(sh: &'static Shared, me: usize, start_call: usize) {
    let ctx = ClientCtx { sh, me, call_no: Cell::new(0), ticks: Cell::new(0), trace: Cell::new(0) };
    CTX.with(|c| c.set(&ctx as *const ClientCtx));
    set_thread_hook(Some(sim_hook));
    {
        let mut st = sh.m.lock().unwrap();
        st.ready[me] = true;
        sh.cv[sh.n].notify_one();
        while st.current != me {
            st = sh.cv[me].wait(st).unwrap();
        }
    }
    let calls = &sh.spec.clients[me];
    let churn = &sh.spec.churn[me];
    let mut k = start_call;
    while k < calls.len() {
        sh.decision(me, k as u32, 0, Kind::Boundary);
        let entry = calls[k];
        let e = &sh.pool.entries[entry as usize];
        ctx.call_no.set(k as u32);
        ctx.ticks.set(0);
        ctx.trace.set(Hasher64::new().0);
        sh.begin_call(me, entry);
        let out = exec_call(&e.call);
        sh.complete(me, k as u32, entry, out, ctx.ticks.get(), ctx.trace.get());
        k += 1;
        if k < calls.len() && churn.contains(&((k - 1) as u32)) {
            // retire this OS thread; the coordinator joins it (TLS destructors run) and spawns the successor
            set_thread_hook(None);
            CTX.with(|c| c.set(std::ptr::null()));
            let mut st = sh.m.lock().unwrap();
            st.f[6] += 1;
            st.churn_req = Some((me, k));
            st.ready[me] = false;
            st.current = sh.n;
            sh.cv[sh.n].notify_one();
            return;
        }
    }
    set_thread_hook(None);
    CTX.with(|c| c.set(std::ptr::null()));
    sh.decision(me, calls.len() as u32, 0, Kind::Exit);
}

fn spawn_client(sh: &'static Shared, me: usize, start_call: usize) -> std::thread::JoinHandle<()> {
    let h = std::thread::Builder::new()
        .stack_size(STACK_BYTES)
        .spawn(move || client_main(sh, me, start_call))
        .unwrap_or_else(|_| proc::harness_die("cannot spawn client thread"));
    let mut st = sh.m.lock().unwrap();
    while !st.ready[me] {
        st = sh.cv[sh.n].wait(st).unwrap();
    }
    drop(st);
    h
}

/// Execute one simulated run in this (freshly forked) process. Never returns.
pub fn run_child(pool: &Pool, spec: &RunSpec) -> ! {
    silence_stderr();
    // Safety of the 'static casts: the process ends inside this function.
    let pool: &'static Pool = unsafe { &*(pool as *const Pool) };
    let spec: &'static RunSpec = unsafe { &*(spec as *const RunSpec) };
    let n = spec.clients.len();
    let mut rng = Rng::new(mix(spec.seed, 0x7363_6865_64));
    let mut order: Vec<usize> = (0..n).collect();
    rng.shuffle(&mut order);
    let mut prio: Vec<i64> = (0..n as i64).map(|i| 1000 + i).collect();
    rng.shuffle(&mut prio);
    let mut change_points = BTreeSet::new();
    if let Policy::Pct { k } = &spec.policy {
        for _ in 0..*k {
            change_points.insert(1 + rng.below(spec.est_steps.max(1) as usize) as u64);
        }
    }
    let st = St {
        current: usize::MAX,
        start: 0,
        ready: vec![false; n],
        done: vec![false; n],
        in_call: vec![None; n],
        cur_call: vec![0; n],
        parked_site: vec![BOUNDARY; n],
        churn_req: None,
        rng,
        order,
        prio,
        low_prio: 0,
        change_points,
        sw_i: 0,
        step: 0,
        log: Hasher64::new(),
        sched: Hasher64::new(),
        rec: Vec::with_capacity(4096),
        results: Vec::with_capacity(spec.clients.iter().map(|c| c.len()).sum::<usize>() + 1),
        calls: 0,
        ticks: 0,
        switches: 0,
        f: [0; 8],
        preempt_site: [0; NSITES],
        pairs: [[0; NSITES]; NSITES],
        work_differs: 0,
        sens_calls: 0,
        err_pending: 0,
        panic_pending: 0,
        seen_expr: vec![(u32::MAX, false); pool.by_expr.len()],
        seen_text: vec![0u8; pool.n_texts.max(1)],
        max_inflight: 0,
    };
    let sh: &'static Shared = Box::leak(Box::new(Shared {
        m: Mutex::new(st),
        cv: (0..n + 1).map(|_| Condvar::new()).collect(),
        pool,
        spec,
        n,
    }));
    // spawn clients one at a time; each is parked before the next is created
    let mut handles: Vec<Option<std::thread::JoinHandle<()>>> = Vec::new();
    for i in 0..n {
        handles.push(Some(spawn_client(sh, i, 0)));
    }
    // clients with no calls at all still pass through their Exit decision
    {
        let mut st = sh.m.lock().unwrap();
        let start = match &spec.policy {
            Policy::Replay => {
                let s = spec.start as usize;
                if s < n {
                    s
                } else {
                    0
                }
            }
            Policy::Serial => st.order[0],
            Policy::Pct { .. } => (0..n).max_by_key(|i| st.prio[*i]).unwrap_or(0),
            _ => st.rng.below(n),
        };
        st.log.u64(0x5354_4152_5400 | start as u64);
        st.current = start;
        sh.cv[start].notify_one();
        st.start = start as u32;
        loop {
            while st.current != n {
                st = sh.cv[n].wait(st).unwrap();
            }
            if let Some((c, k)) = st.churn_req.take() {
                drop(st);
                if let Some(h) = handles[c].take() {
                    let _ = h.join();
                }
                handles[c] = Some(spawn_client(sh, c, k));
                st = sh.m.lock().unwrap();
                st.log.u64(0xC4_0000 | c as u64);
                st.current = c;
                sh.cv[c].notify_one();
                continue;
            }
            if st.done.iter().all(|d| *d) {
                break;
            }
            // nobody holds the baton but clients remain: cannot happen; hand to the lowest one
            let nx = (0..n).find(|i| !st.done[*i]).unwrap();
            st.current = nx;
            sh.cv[nx].notify_one();
        }
        // history check over the record: identical calls returned identical outcomes
        let mut by_entry: BTreeMap<u32, u64> = BTreeMap::new();
        for (c, k, e, oh) in st.results.iter() {
            if let Some(prev) = by_entry.insert(*e, *oh) {
                if prev != *oh {
                    let v = json!({"client": c, "call_no": k, "entry": e, "kind": "history_inconsistent",
                                   "call": pool.entries[*e as usize].call.to_json(),
                                   "expected": pool.entries[*e as usize].oracle.encode(), "observed": "differs between two identical calls"});
                    let rec = sh.record(&st, "violation", Some(v));
                    proc::item_finish(rec.to_string().as_bytes());
                }
            }
        }
        let rec = sh.record(&st, "ok", None);
        proc::item_finish(rec.to_string().as_bytes());
    }
}

// ---------------------------------------------------------------------------
// JSON forms

pub fn switches_to_json(s: &[Sw]) -> Value {
    Value::Array(s.iter().map(|s| json!([s.thread, s.call, s.tick, s.to])).collect())
}

pub fn switches_from_json(v: &Value) -> Option<Vec<Sw>> {
    let a = v.as_array()?;
    let mut out = Vec::new();
    for x in a {
        let q = x.as_array()?;
        if q.len() != 4 {
            return None;
        }
        out.push(Sw {
            thread: q[0].as_u64()? as u32,
            call: q[1].as_u64()? as u32,
            tick: q[2].as_u64()? as u32,
            to: q[3].as_u64()? as u32,
        });
    }
    Some(out)
}
