//! The file system seam. The library under test touches no file today; a change that starts to (a cache or
//! statistics file in the temp directory, a config file read lazily) would otherwise share the machine's real file
//! system between all the processes of a check: one run's files would leak into the next run and into the oracle,
//! and nothing would replay. Every item (an isolated evaluation, a simulated run with all its process incarnations)
//! therefore gets a private, initially empty directory tree on tmpfs:
//!
//!  * the zygote worker creates `/dev/shm/scsim.<pid>.<n>/{tmp,var/tmp,root,cwd}` before it forks the item child and
//!    removes it after the child is gone (also when the child was killed);
//!  * the item child changes into `<root>/cwd`, so relative paths land there;
//!  * the path-taking libc functions below, when called from inside a library call, see ABSOLUTE paths prefixed
//!    with the private root (a parent directory that exists on the real file system is created on demand, so that
//!    "no such directory" stays what it would be); `/proc`, `/dev` and `/sys` are left alone.
//!
//! Outside library calls (the harness, std's own start-up) every function is the plain system call.
//! If the private directory cannot be created the seam is off and paths are left alone (reported in the evidence).

use crate::tick::{MODE_OFF, T};
use libc::{c_char, c_int, c_long, c_uint, c_void};

const MAXP: usize = 4096;
static mut ROOT: [u8; 160] = [0; 160];
static mut ROOT_LEN: usize = 0;
static mut SEQ: u64 = 0;
pub static FILE_OPS: std::sync::atomic::AtomicU64 = std::sync::atomic::AtomicU64::new(0);

// ---- injected I/O faults (fault kind F11) -------------------------------------------------------------------------
// A run's `io_fault` word (0 = none) decides, for the k-th eligible file operation of thread `me` inside library
// calls of this process, whether it fails and how: a pure function of (io_fault, me, k), so a replay of the same
// schedule meets the same faults. Eligible: opens / renames / unlinks / mkdirs of redirected paths, and reads, writes
// and fsyncs on descriptors the library opened through the seam. The errors are ones a real system produces at these
// calls (EINTR, EIO, ENOSPC, EACCES, EMFILE, ENOENT, short reads and writes).
pub static IO_FAULT: std::sync::atomic::AtomicU64 = std::sync::atomic::AtomicU64::new(0);
#[allow(clippy::declare_interior_mutable_const)]
const CNT0: std::sync::atomic::AtomicU64 = std::sync::atomic::AtomicU64::new(0);
pub const IO_KINDS: [&str; 8] = ["open_error", "write_error", "short_write", "interrupted", "read_error", "short_read", "rename_unlink_mkdir_error", "fsync_error"];
pub static IO_INJECTED: [std::sync::atomic::AtomicU64; 8] = [CNT0; 8];

fn io_count(k: usize) {
    IO_INJECTED[k].fetch_add(1, std::sync::atomic::Ordering::Relaxed);
}

pub fn io_injected() -> Vec<u64> {
    IO_INJECTED.iter().map(|c| c.load(std::sync::atomic::Ordering::Relaxed)).collect()
}

/// 0 = this operation goes through; otherwise pseudo-random bits that choose the fault
fn io_draw() -> u64 {
    let f = IO_FAULT.load(std::sync::atomic::Ordering::Relaxed);
    if f == 0 || !in_library_call() {
        return 0;
    }
    let (me, k) = T
        .try_with(|c| {
            let k = c.io_ops.get();
            c.io_ops.set(k + 1);
            (c.me.get() as u64, k)
        })
        .unwrap_or((0, 0));
    let h = crate::types::mix(crate::types::mix(f, me), k);
    let rate = [40u64, 120, 300, 600][(f & 3) as usize];
    if h % 1000 < rate {
        (h >> 12) | 1
    } else {
        0
    }
}

unsafe fn fail(e: c_int) -> c_int {
    crate::sim::file_op_point();
    *libc::__errno_location() = e;
    -1
}

// ---- what a power loss may take away ------------------------------------------------------------------------------
// Every descriptor the library opens for writing through the seam, and every fsync / fdatasync it issues on one, is
// noted in `<root>/.journal` as (inode, size, kind). When a phase of a restart run ends in a power loss, the
// supervisor cuts each file back: bytes beyond the size at the last fsync (or, never synced, at the first open) may be
// gone, wholly or in part, or read back as zeros. In-place overwrites and renames are taken as durable.
unsafe fn journal(fd: c_int, kind: u64) {
    if !active() {
        return;
    }
    let mut st: libc::stat = std::mem::zeroed();
    if raw(libc::SYS_fstat, fd as c_long, &mut st as *mut _ as c_long, 0, 0, 0) != 0 || (st.st_mode & libc::S_IFMT) != libc::S_IFREG {
        return;
    }
    let mut p = [0u8; 200];
    let r = root();
    p[..r.len()].copy_from_slice(r);
    p[r.len()..r.len() + 9].copy_from_slice(b"/.journal");
    let jf = raw(libc::SYS_openat, libc::AT_FDCWD as c_long, p.as_ptr() as c_long, (libc::O_WRONLY | libc::O_CREAT | libc::O_APPEND) as c_long, 0o600, 0);
    if jf >= 0 {
        let mut rec = [0u8; 24];
        rec[..8].copy_from_slice(&(st.st_ino as u64).to_le_bytes());
        rec[8..16].copy_from_slice(&(st.st_size as u64).to_le_bytes());
        rec[16..].copy_from_slice(&kind.to_le_bytes());
        raw(libc::SYS_write, jf, rec.as_ptr() as c_long, 24, 0, 0);
        raw(libc::SYS_close, jf, 0, 0, 0, 0);
    }
}

/// supervisor side, between two process incarnations: apply a power loss chosen by `seed` to the private disk.
/// Returns the number of files that lost something.
pub fn power_loss(seed: u64) -> u64 {
    use std::collections::BTreeMap;
    use std::os::unix::fs::MetadataExt;
    if !active() {
        return 0;
    }
    let rs = match std::str::from_utf8(root()) {
        Ok(s) => s.to_string(),
        Err(_) => return 0,
    };
    let jpath = format!("{}/.journal", rs);
    let j = std::fs::read(&jpath).unwrap_or_default();
    let _ = std::fs::remove_file(&jpath);
    // inode -> (size at first open, size at last fsync)
    let mut dur: BTreeMap<u64, (u64, Option<u64>)> = BTreeMap::new();
    for rec in j.chunks_exact(24) {
        let ino = u64::from_le_bytes(rec[..8].try_into().unwrap());
        let size = u64::from_le_bytes(rec[8..16].try_into().unwrap());
        let kind = u64::from_le_bytes(rec[16..].try_into().unwrap());
        let e = dur.entry(ino).or_insert((size, None));
        if kind == 1 {
            e.1 = Some(size);
        }
    }
    if dur.is_empty() {
        return 0;
    }
    let mut files: Vec<std::path::PathBuf> = Vec::new();
    let mut stack = vec![std::path::PathBuf::from(&rs)];
    while let Some(d) = stack.pop() {
        let mut names: Vec<_> = match std::fs::read_dir(&d) {
            Ok(rd) => rd.filter_map(|e| e.ok()).map(|e| e.path()).collect(),
            Err(_) => continue,
        };
        names.sort();
        for p in names {
            match std::fs::symlink_metadata(&p) {
                Ok(m) if m.is_dir() => stack.push(p),
                Ok(m) if m.is_file() => files.push(p),
                _ => {}
            }
        }
    }
    files.sort();
    let mut rng = crate::types::Rng::new(crate::types::mix(seed, 0x706f_7765_72));
    let mut hit = 0;
    for p in files {
        let m = match std::fs::metadata(&p) {
            Ok(m) => m,
            Err(_) => continue,
        };
        let (first, synced) = match dur.get(&m.ino()) {
            Some(d) => *d,
            None => continue,
        };
        let cur = m.len();
        let safe = synced.unwrap_or(first).min(cur);
        if cur <= safe {
            continue;
        }
        let cut = safe + rng.below((cur - safe) as usize + 1) as u64;
        match rng.below(4) {
            0 => continue, // everything had reached the disk
            1 => {
                let _ = std::fs::OpenOptions::new().write(true).open(&p).and_then(|f| f.set_len(safe));
            }
            2 => {
                let _ = std::fs::OpenOptions::new().write(true).open(&p).and_then(|f| f.set_len(cut));
            }
            _ => {
                // the size made it, the data beyond `cut` did not
                let _ = std::fs::OpenOptions::new().write(true).open(&p).and_then(|f| f.set_len(cut).and_then(|_| f.set_len(cur)));
            }
        }
        hit += 1;
    }
    hit
}

fn root() -> &'static [u8] {
    unsafe {
        let r: &'static [u8; 160] = &*std::ptr::addr_of!(ROOT);
        &r[..ROOT_LEN]
    }
}

/// can this process create private trees at all? (driver side, for the evidence)
pub fn probe() -> bool {
    let ok = prepare();
    cleanup();
    ok
}

pub fn active() -> bool {
    unsafe { ROOT_LEN > 0 }
}

unsafe fn raw(num: c_long, a1: c_long, a2: c_long, a3: c_long, a4: c_long, a5: c_long) -> c_long {
    let ret: c_long;
    core::arch::asm!("syscall", inlateout("rax") num => ret, in("rdi") a1, in("rsi") a2, in("rdx") a3, in("r10") a4, in("r8") a5,
        lateout("rcx") _, lateout("r11") _, options(nostack));
    ret
}

unsafe fn ret_errno(r: c_long) -> c_int {
    if r < 0 && r >= -4095 {
        *libc::__errno_location() = (-r) as i32;
        -1
    } else {
        r as c_int
    }
}

fn mkdir_raw(path: &[u8]) {
    // path must be NUL terminated
    unsafe {
        raw(libc::SYS_mkdirat, libc::AT_FDCWD as c_long, path.as_ptr() as c_long, 0o755, 0, 0);
    }
}

/// worker side: create the private tree for the next item
pub fn prepare() -> bool {
    unsafe {
        SEQ += 1;
        let s = format!("/dev/shm/scsim.{}.{}", libc::getpid(), SEQ);
        if s.len() + 1 >= 160 {
            return false;
        }
        let mut z = s.clone().into_bytes();
        z.push(0);
        if raw(libc::SYS_mkdirat, libc::AT_FDCWD as c_long, z.as_ptr() as c_long, 0o700, 0, 0) < 0 {
            ROOT_LEN = 0;
            return false;
        }
        for sub in ["tmp", "var", "var/tmp", "root", "cwd", "home"] {
            let mut p = format!("{}/{}", s, sub).into_bytes();
            p.push(0);
            mkdir_raw(&p);
        }
        let r = &mut *std::ptr::addr_of_mut!(ROOT);
        r[..s.len()].copy_from_slice(s.as_bytes());
        ROOT_LEN = s.len();
        true
    }
}

/// item child side: relative paths resolve inside the private tree
pub fn enter() {
    if active() {
        let mut p = root().to_vec();
        p.extend_from_slice(b"/cwd\0");
        unsafe {
            libc::chdir(p.as_ptr() as *const c_char);
        }
    }
}

/// worker side: remove the private tree of the item that just ended
pub fn cleanup() {
    if active() && std::env::var("SC_KEEP_DISK").is_err() {
        if let Ok(s) = std::str::from_utf8(root()) {
            let _ = std::fs::remove_dir_all(s);
        }
        unsafe {
            ROOT_LEN = 0;
        }
    }
}

fn in_library_call() -> bool {
    active()
        && T.try_with(|c| c.mode.get() != MODE_OFF && c.in_call.get() && !c.in_hook.get()).unwrap_or(false)
}

unsafe fn cstr_len(p: *const c_char) -> usize {
    let mut n = 0;
    while *p.add(n) != 0 {
        n += 1;
        if n >= MAXP {
            break;
        }
    }
    n
}

/// `path` as the library should see it: absolute paths move under the private root. Returns the pointer to use.
unsafe fn tr(path: *const c_char, buf: &mut [u8; MAXP + 200]) -> *const c_char {
    if path.is_null() || !in_library_call() {
        return path;
    }
    let n = cstr_len(path);
    let src = std::slice::from_raw_parts(path as *const u8, n);
    if n == 0 || src[0] != b'/' {
        return path;
    }
    let r = root();
    if src.starts_with(r) || src.starts_with(b"/proc") || src.starts_with(b"/dev/") || src.starts_with(b"/sys") {
        return path;
    }
    if r.len() + n + 1 > buf.len() {
        return path;
    }
    FILE_OPS.fetch_add(1, std::sync::atomic::Ordering::Relaxed);
    crate::sim::file_op_point();
    buf[..r.len()].copy_from_slice(r);
    buf[r.len()..r.len() + n].copy_from_slice(src);
    buf[r.len() + n] = 0;
    // mirror the parent directory if it exists for real
    if let Some(slash) = src.iter().rposition(|b| *b == b'/') {
        if slash > 0 {
            let mut parent = [0u8; MAXP + 1];
            parent[..slash].copy_from_slice(&src[..slash]);
            let mut st: libc::stat = std::mem::zeroed();
            let real = raw(libc::SYS_newfstatat, libc::AT_FDCWD as c_long, parent.as_ptr() as c_long, &mut st as *mut _ as c_long, 0, 0);
            if real == 0 && (st.st_mode & libc::S_IFMT) == libc::S_IFDIR {
                // mkdir -p root + parent
                let mut i = r.len() + 1;
                while i <= r.len() + slash {
                    if i == r.len() + slash || buf[i] == b'/' {
                        let keep = buf[i];
                        buf[i] = 0;
                        mkdir_raw(&buf[..=i]);
                        buf[i] = keep;
                    }
                    i += 1;
                }
            }
        }
    }
    buf.as_ptr() as *const c_char
}

macro_rules! tbuf {
    () => {
        [0u8; MAXP + 200]
    };
}

#[no_mangle]
pub unsafe extern "C" fn open64(path: *const c_char, flags: c_int, mode: c_uint) -> c_int {
    let mut b = tbuf!();
    let p = tr(path, &mut b);
    if p != path {
        let h = io_draw();
        if h != 0 {
            let creat = flags & libc::O_CREAT != 0;
            let e = match (h >> 3) % 6 {
                0 => libc::EINTR,
                1 => libc::EMFILE,
                2 => libc::EACCES,
                3 if creat => libc::ENOSPC,
                4 if !creat => libc::ENOENT,
                _ => libc::EIO,
            };
            io_count(if e == libc::EINTR { 3 } else { 0 });
            return fail(e);
        }
    }
    let r = ret_errno(raw(libc::SYS_openat, libc::AT_FDCWD as c_long, p as c_long, flags as c_long, mode as c_long, 0));
    if p != path {
        // a second point right after the file exists / was truncated
        let e = *libc::__errno_location();
        if r >= 0 && (r as usize) < LIB_FDS.len() {
            LIB_FDS[r as usize].store(true, std::sync::atomic::Ordering::Relaxed);
            if flags & (libc::O_WRONLY | libc::O_RDWR) != 0 {
                journal(r, 0);
            }
        }
        crate::sim::file_op_point();
        *libc::__errno_location() = e;
    }
    r
}

/// descriptors the library opened through the seam: its writes to them are points on the time line too (a writer can
/// be stalled between two chunks of one file)
#[allow(clippy::declare_interior_mutable_const)]
const FD_UNSET: std::sync::atomic::AtomicBool = std::sync::atomic::AtomicBool::new(false);
static LIB_FDS: [std::sync::atomic::AtomicBool; 1024] = [FD_UNSET; 1024];

#[no_mangle]
pub unsafe extern "C" fn write(fd: c_int, buf: *const c_void, n: libc::size_t) -> libc::ssize_t {
    let mut n = n;
    if fd >= 0 && (fd as usize) < LIB_FDS.len() && LIB_FDS[fd as usize].load(std::sync::atomic::Ordering::Relaxed) {
        let h = io_draw();
        if h != 0 {
            match (h >> 3) % 4 {
                0 => {
                    io_count(3);
                    return fail(libc::EINTR) as libc::ssize_t;
                }
                1 => {
                    io_count(1);
                    return fail(libc::ENOSPC) as libc::ssize_t;
                }
                2 => {
                    io_count(1);
                    return fail(libc::EIO) as libc::ssize_t;
                }
                _ => {
                    if n > 1 {
                        io_count(2);
                        n = 1 + ((h >> 8) as usize) % (n - 1);
                    }
                }
            }
        }
    }
    let r = raw(libc::SYS_write, fd as c_long, buf as c_long, n as c_long, 0, 0);
    let out = if r < 0 && r >= -4095 {
        *libc::__errno_location() = (-r) as i32;
        -1
    } else {
        r as libc::ssize_t
    };
    if fd >= 0 && (fd as usize) < LIB_FDS.len() && LIB_FDS[fd as usize].load(std::sync::atomic::Ordering::Relaxed) && in_library_call() {
        let e = *libc::__errno_location();
        FILE_OPS.fetch_add(1, std::sync::atomic::Ordering::Relaxed);
        if std::env::var("SC_DEBUG_FILELOG").is_ok() {
            let off = raw(libc::SYS_lseek, fd as c_long, 0, libc::SEEK_CUR as c_long, 0, 0);
            let me = T.try_with(|c| c.me.get()).unwrap_or(99);
            let msg = format!("pid {} thr {} write fd {} n {} -> {} off_after {}\n", libc::getpid(), me, fd, n, out, off);
            let lf = raw(libc::SYS_openat, libc::AT_FDCWD as c_long, b"/root/scratch/filelog.txt\0".as_ptr() as c_long, (libc::O_WRONLY | libc::O_CREAT | libc::O_APPEND) as c_long, 0o644, 0);
            if lf >= 0 {
                raw(libc::SYS_write, lf, msg.as_ptr() as c_long, msg.len() as c_long, 0, 0);
                raw(libc::SYS_close, lf, 0, 0, 0, 0);
            }
        }
        crate::sim::file_op_point();
        *libc::__errno_location() = e;
    }
    out
}

#[no_mangle]
pub unsafe extern "C" fn close(fd: c_int) -> c_int {
    if fd >= 0 && (fd as usize) < LIB_FDS.len() {
        LIB_FDS[fd as usize].store(false, std::sync::atomic::Ordering::Relaxed);
    }
    ret_errno(raw(libc::SYS_close, fd as c_long, 0, 0, 0, 0))
}

#[no_mangle]
pub unsafe extern "C" fn read(fd: c_int, buf: *mut c_void, n: libc::size_t) -> libc::ssize_t {
    let mut n = n;
    let lib = fd >= 0 && (fd as usize) < LIB_FDS.len() && LIB_FDS[fd as usize].load(std::sync::atomic::Ordering::Relaxed) && in_library_call();
    if lib {
        let h = io_draw();
        if h != 0 {
            match (h >> 3) % 3 {
                0 => {
                    io_count(3);
                    return fail(libc::EINTR) as libc::ssize_t;
                }
                1 => {
                    io_count(4);
                    return fail(libc::EIO) as libc::ssize_t;
                }
                _ => {
                    if n > 1 {
                        io_count(5);
                        n = 1 + ((h >> 8) as usize) % (n - 1);
                    }
                }
            }
        }
    }
    let r = raw(libc::SYS_read, fd as c_long, buf as c_long, n as c_long, 0, 0);
    let out = if r < 0 && r >= -4095 {
        *libc::__errno_location() = (-r) as i32;
        -1
    } else {
        r as libc::ssize_t
    };
    if lib {
        // a reader can be overtaken between two reads of one file
        let e = *libc::__errno_location();
        FILE_OPS.fetch_add(1, std::sync::atomic::Ordering::Relaxed);
        crate::sim::file_op_point();
        *libc::__errno_location() = e;
    }
    out
}

unsafe fn sync_common(fd: c_int, num: c_long) -> c_int {
    if fd >= 0 && (fd as usize) < LIB_FDS.len() && LIB_FDS[fd as usize].load(std::sync::atomic::Ordering::Relaxed) && in_library_call() {
        FILE_OPS.fetch_add(1, std::sync::atomic::Ordering::Relaxed);
        let h = io_draw();
        if h != 0 {
            let e = if (h >> 3) % 3 == 0 { libc::EINTR } else { libc::EIO };
            io_count(if e == libc::EINTR { 3 } else { 7 });
            return fail(e);
        }
        journal(fd, 1);
        let r = ret_errno(raw(num, fd as c_long, 0, 0, 0, 0));
        let e = *libc::__errno_location();
        crate::sim::file_op_point();
        *libc::__errno_location() = e;
        return r;
    }
    ret_errno(raw(num, fd as c_long, 0, 0, 0, 0))
}

#[no_mangle]
pub unsafe extern "C" fn fsync(fd: c_int) -> c_int {
    sync_common(fd, libc::SYS_fsync)
}

#[no_mangle]
pub unsafe extern "C" fn fdatasync(fd: c_int) -> c_int {
    sync_common(fd, libc::SYS_fdatasync)
}

#[no_mangle]
pub unsafe extern "C" fn open(path: *const c_char, flags: c_int, mode: c_uint) -> c_int {
    open64(path, flags, mode)
}

#[no_mangle]
pub unsafe extern "C" fn openat64(dirfd: c_int, path: *const c_char, flags: c_int, mode: c_uint) -> c_int {
    let mut b = tbuf!();
    let p = tr(path, &mut b);
    ret_errno(raw(libc::SYS_openat, dirfd as c_long, p as c_long, flags as c_long, mode as c_long, 0))
}

#[no_mangle]
pub unsafe extern "C" fn openat(dirfd: c_int, path: *const c_char, flags: c_int, mode: c_uint) -> c_int {
    openat64(dirfd, path, flags, mode)
}

#[no_mangle]
pub unsafe extern "C" fn stat64(path: *const c_char, st: *mut c_void) -> c_int {
    let mut b = tbuf!();
    let p = tr(path, &mut b);
    ret_errno(raw(libc::SYS_newfstatat, libc::AT_FDCWD as c_long, p as c_long, st as c_long, 0, 0))
}

#[no_mangle]
pub unsafe extern "C" fn stat(path: *const c_char, st: *mut c_void) -> c_int {
    stat64(path, st)
}

#[no_mangle]
pub unsafe extern "C" fn lstat64(path: *const c_char, st: *mut c_void) -> c_int {
    let mut b = tbuf!();
    let p = tr(path, &mut b);
    ret_errno(raw(libc::SYS_newfstatat, libc::AT_FDCWD as c_long, p as c_long, st as c_long, libc::AT_SYMLINK_NOFOLLOW as c_long, 0))
}

#[no_mangle]
pub unsafe extern "C" fn lstat(path: *const c_char, st: *mut c_void) -> c_int {
    lstat64(path, st)
}

#[no_mangle]
pub unsafe extern "C" fn fstatat64(dirfd: c_int, path: *const c_char, st: *mut c_void, flags: c_int) -> c_int {
    let mut b = tbuf!();
    let p = tr(path, &mut b);
    ret_errno(raw(libc::SYS_newfstatat, dirfd as c_long, p as c_long, st as c_long, flags as c_long, 0))
}

#[no_mangle]
pub unsafe extern "C" fn statx(dirfd: c_int, path: *const c_char, flags: c_int, mask: c_uint, stx: *mut c_void) -> c_int {
    let mut b = tbuf!();
    let p = tr(path, &mut b);
    ret_errno(raw(libc::SYS_statx, dirfd as c_long, p as c_long, flags as c_long, mask as c_long, stx as c_long))
}

#[no_mangle]
pub unsafe extern "C" fn access(path: *const c_char, mode: c_int) -> c_int {
    let mut b = tbuf!();
    let p = tr(path, &mut b);
    ret_errno(raw(libc::SYS_faccessat, libc::AT_FDCWD as c_long, p as c_long, mode as c_long, 0, 0))
}

#[no_mangle]
pub unsafe extern "C" fn unlink(path: *const c_char) -> c_int {
    let mut b = tbuf!();
    let p = tr(path, &mut b);
    if p != path {
        let h = io_draw();
        if h != 0 {
            io_count(6);
            return fail([libc::EACCES, libc::EIO, libc::EBUSY][((h >> 3) % 3) as usize]);
        }
    }
    ret_errno(raw(libc::SYS_unlinkat, libc::AT_FDCWD as c_long, p as c_long, 0, 0, 0))
}

#[no_mangle]
pub unsafe extern "C" fn unlinkat(dirfd: c_int, path: *const c_char, flags: c_int) -> c_int {
    let mut b = tbuf!();
    let p = tr(path, &mut b);
    ret_errno(raw(libc::SYS_unlinkat, dirfd as c_long, p as c_long, flags as c_long, 0, 0))
}

#[no_mangle]
pub unsafe extern "C" fn rmdir(path: *const c_char) -> c_int {
    let mut b = tbuf!();
    let p = tr(path, &mut b);
    ret_errno(raw(libc::SYS_unlinkat, libc::AT_FDCWD as c_long, p as c_long, libc::AT_REMOVEDIR as c_long, 0, 0))
}

#[no_mangle]
pub unsafe extern "C" fn rename(old: *const c_char, new: *const c_char) -> c_int {
    let mut b1 = tbuf!();
    let mut b2 = tbuf!();
    let p1 = tr(old, &mut b1);
    let p2 = tr(new, &mut b2);
    if p1 != old || p2 != new {
        let h = io_draw();
        if h != 0 {
            io_count(6);
            return fail([libc::EACCES, libc::ENOSPC, libc::EIO, libc::EBUSY][((h >> 3) % 4) as usize]);
        }
    }
    let r = ret_errno(raw(libc::SYS_renameat2, libc::AT_FDCWD as c_long, p1 as c_long, libc::AT_FDCWD as c_long, p2 as c_long, 0));
    if p1 != old || p2 != new {
        let e = *libc::__errno_location();
        crate::sim::file_op_point();
        *libc::__errno_location() = e;
    }
    r
}

#[no_mangle]
pub unsafe extern "C" fn renameat(d1: c_int, old: *const c_char, d2: c_int, new: *const c_char) -> c_int {
    let mut b1 = tbuf!();
    let mut b2 = tbuf!();
    let p1 = tr(old, &mut b1);
    let p2 = tr(new, &mut b2);
    ret_errno(raw(libc::SYS_renameat2, d1 as c_long, p1 as c_long, d2 as c_long, p2 as c_long, 0))
}

#[no_mangle]
pub unsafe extern "C" fn mkdir(path: *const c_char, mode: c_uint) -> c_int {
    let mut b = tbuf!();
    let p = tr(path, &mut b);
    if p != path {
        let h = io_draw();
        if h != 0 {
            io_count(6);
            return fail([libc::EACCES, libc::ENOSPC, libc::EIO][((h >> 3) % 3) as usize]);
        }
    }
    ret_errno(raw(libc::SYS_mkdirat, libc::AT_FDCWD as c_long, p as c_long, mode as c_long, 0, 0))
}

#[no_mangle]
pub unsafe extern "C" fn mkdirat(dirfd: c_int, path: *const c_char, mode: c_uint) -> c_int {
    let mut b = tbuf!();
    let p = tr(path, &mut b);
    ret_errno(raw(libc::SYS_mkdirat, dirfd as c_long, p as c_long, mode as c_long, 0, 0))
}

#[no_mangle]
pub unsafe extern "C" fn readlink(path: *const c_char, out: *mut c_char, len: libc::size_t) -> libc::ssize_t {
    let mut b = tbuf!();
    let p = tr(path, &mut b);
    let r = raw(libc::SYS_readlinkat, libc::AT_FDCWD as c_long, p as c_long, out as c_long, len as c_long, 0);
    if r < 0 {
        *libc::__errno_location() = (-r) as i32;
        return -1;
    }
    r as libc::ssize_t
}

#[no_mangle]
pub unsafe extern "C" fn chmod(path: *const c_char, mode: c_uint) -> c_int {
    let mut b = tbuf!();
    let p = tr(path, &mut b);
    ret_errno(raw(libc::SYS_fchmodat, libc::AT_FDCWD as c_long, p as c_long, mode as c_long, 0, 0))
}

#[no_mangle]
pub unsafe extern "C" fn truncate64(path: *const c_char, len: i64) -> c_int {
    let mut b = tbuf!();
    let p = tr(path, &mut b);
    ret_errno(raw(libc::SYS_truncate, p as c_long, len as c_long, 0, 0, 0))
}

#[no_mangle]
pub unsafe extern "C" fn symlink(target: *const c_char, link: *const c_char) -> c_int {
    let mut b = tbuf!();
    let p = tr(link, &mut b);
    ret_errno(raw(libc::SYS_symlinkat, target as c_long, libc::AT_FDCWD as c_long, p as c_long, 0, 0))
}

#[no_mangle]
pub unsafe extern "C" fn linkat(d1: c_int, old: *const c_char, d2: c_int, new: *const c_char, flags: c_int) -> c_int {
    let mut b1 = tbuf!();
    let mut b2 = tbuf!();
    let p1 = tr(old, &mut b1);
    let p2 = tr(new, &mut b2);
    ret_errno(raw(libc::SYS_linkat, d1 as c_long, p1 as c_long, d2 as c_long, p2 as c_long, flags as c_long))
}

#[no_mangle]
pub unsafe extern "C" fn link(old: *const c_char, new: *const c_char) -> c_int {
    linkat(libc::AT_FDCWD, old, libc::AT_FDCWD, new, 0)
}

#[no_mangle]
pub unsafe extern "C" fn opendir(path: *const c_char) -> *mut libc::DIR {
    static REAL: std::sync::atomic::AtomicUsize = std::sync::atomic::AtomicUsize::new(0);
    let mut real = REAL.load(std::sync::atomic::Ordering::Relaxed);
    if real == 0 {
        real = libc::dlsym(libc::RTLD_NEXT, b"opendir\0".as_ptr() as *const c_char) as usize;
        REAL.store(real, std::sync::atomic::Ordering::Relaxed);
    }
    if real == 0 {
        *libc::__errno_location() = libc::ENOSYS;
        return std::ptr::null_mut();
    }
    let f: unsafe extern "C" fn(*const c_char) -> *mut libc::DIR = std::mem::transmute(real);
    let mut b = tbuf!();
    let p = tr(path, &mut b);
    f(p)
}
