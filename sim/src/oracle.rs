//! The oracle: isolated first-time evaluation. One forked process per call; that process performs
//! this one call and nothing else, on a big-stack thread, with a counting hook.

use crate::gen::{Entry, Pool};
use crate::proc::{self, Exit};
use crate::types::*;
use std::collections::BTreeMap;
use std::time::Duration;
use crate::tick::{self, T};
use string_calculator::verif_hooks::set_thread_hook;

pub const STACK_BYTES: usize = 64 << 20;
pub const ISOLATED_TICK_CAP: u64 = 50_000;

/// per-call tick cap of an isolated evaluation: a call that needs more never "returns" in the property's sense
pub fn isolated_tick_cap() -> u64 {
    if crate::tick::bb_guards() > 0 {
        ISOLATED_TICK_CAP * 256
    } else {
        ISOLATED_TICK_CAP
    }
}

pub fn silence_stderr() {
    unsafe {
        let fd = libc::open(b"/dev/null\0".as_ptr() as *const libc::c_char, libc::O_WRONLY);
        if fd >= 0 {
            libc::dup2(fd, 2);
            libc::close(fd);
        }
    }
}

/// Body of an isolated-evaluation child. Returns "o\t<ticks>\t<trace>\t<outcome>".
pub fn isolated_child(call: &Call, cap: u64) -> Vec<u8> {
    silence_stderr();
    let call = call.clone();
    let h = std::thread::Builder::new()
        .stack_size(STACK_BYTES)
        .spawn(move || {
            T.with(|c| {
                c.mode.set(tick::MODE_ISO);
                c.cap.set(cap);
                c.wake.set(u64::MAX);
                c.track_mem.set(false);
                tick::begin_call(c, 0);
                set_thread_hook(Some(tick::source_hook));
                c.in_call.set(true);
                let o = exec_call(&call);
                c.in_call.set(false);
                set_thread_hook(None);
                c.mode.set(tick::MODE_OFF);
                format!("o\t{}\t{}\t{}", c.ticks.get(), c.trace.get(), o.encode()).into_bytes()
            })
        })
        .unwrap_or_else(|_| proc::harness_die("cannot spawn oracle thread"));
    match h.join() {
        Ok(v) => v,
        Err(_) => b"harness-thread-panicked".to_vec(),
    }
}

#[derive(Clone, Debug, PartialEq)]
pub enum Iso {
    Done { outcome: Outcome, ticks: u32, trace: u64 },
    StepCap,
    Signal(i32),
    Timeout,
    Broken(String),
}

pub fn parse_iso(bytes: &[u8], exit: Exit) -> Iso {
    match exit {
        Exit::Timeout => return Iso::Timeout,
        Exit::Signal(s) => return Iso::Signal(s),
        Exit::Code(c) => return Iso::Broken(format!("exit code {}", c)),
        Exit::Ok => {}
    }
    if bytes == b"cap" {
        return Iso::StepCap;
    }
    let s = match std::str::from_utf8(bytes) {
        Ok(s) => s,
        Err(_) => return Iso::Broken("non-utf8".into()),
    };
    let mut it = s.splitn(4, '\t');
    if it.next() != Some("o") {
        return Iso::Broken(s.chars().take(80).collect());
    }
    let ticks = it.next().and_then(|t| t.parse::<u64>().ok());
    let trace = it.next().and_then(|t| t.parse::<u64>().ok());
    let out = it.next().and_then(Outcome::decode);
    match (ticks, trace, out) {
        (Some(t), Some(h), Some(o)) => Iso::Done { outcome: o, ticks: t as u32, trace: h },
        _ => Iso::Broken(s.chars().take(80).collect()),
    }
}

/// Evaluate the given calls in isolation (one fresh process each), in parallel. Result order = input order.
pub fn isolated_many(calls: &[Call], workers: usize, timeout: Duration) -> Vec<Iso> {
    let mut res: Vec<Option<Iso>> = vec![None; calls.len()];
    let cap = isolated_tick_cap();
    proc::zmap(
        calls.len(),
        workers,
        timeout,
        None,
        &mut || true,
        &mut |i| Some(crate::wire::encode_iso(&calls[i], cap)),
        &mut |i, bytes, exit| {
            res[i] = Some(parse_iso(&bytes, exit));
        },
    );
    res.into_iter().map(|r| r.unwrap_or(Iso::Broken("no result".into()))).collect()
}

#[derive(Clone, Debug, Default)]
pub struct OracleStats {
    pub candidates: usize,
    pub kept: usize,
    pub dropped_stepcap: usize,
    pub dropped_signal: usize,
    pub dropped_timeout: usize,
    pub dropped_broken: usize,
    pub ok: usize,
    pub err: usize,
    pub panic: usize,
    pub rechecked: usize,
    pub isolated_nondeterminism: Vec<(Call, String, String)>,
    pub dropped_examples: Vec<String>,
}

/// Run the oracle over the candidate pool, drop what never returns, re-evaluate a sample a second time.
pub fn oracle_pass(cand: Pool, workers: usize, recheck_every: usize) -> (Pool, OracleStats) {
    let calls: Vec<Call> = cand.entries.iter().map(|e| e.call.clone()).collect();
    let first = isolated_many(&calls, workers, Duration::from_millis(4000));
    let mut st = OracleStats { candidates: calls.len(), ..Default::default() };
    // second, independent isolated evaluation of a sample
    let sample_idx: Vec<usize> = (0..calls.len()).filter(|i| recheck_every > 0 && i % recheck_every == 0).collect();
    let sample_calls: Vec<Call> = sample_idx.iter().map(|i| calls[*i].clone()).collect();
    let second = isolated_many(&sample_calls, workers, Duration::from_millis(4000));
    st.rechecked = sample_idx.len();
    for (k, i) in sample_idx.iter().enumerate() {
        if let (Iso::Done { outcome: a, .. }, Iso::Done { outcome: b, .. }) = (&first[*i], &second[k]) {
            if a != b {
                st.isolated_nondeterminism.push((calls[*i].clone(), a.encode(), b.encode()));
            }
        }
    }
    let mut pool = Pool::default();
    let cand_groups = cand.sib_groups.clone();
    let mut expr_map: BTreeMap<u32, u32> = BTreeMap::new();
    for (i, e) in cand.entries.into_iter().enumerate() {
        match &first[i] {
            Iso::Done { outcome, ticks, trace } => {
                match outcome {
                    Outcome::Ok(_) => st.ok += 1,
                    Outcome::Err(..) => st.err += 1,
                    Outcome::Panic(_) => st.panic += 1,
                }
                let next_id = expr_map.len() as u32;
                let id = *expr_map.entry(e.expr_id).or_insert(next_id);
                if id as usize == pool.by_expr.len() {
                    pool.by_expr.push(Vec::new());
                    pool.by_text.entry(e.call.expr.clone()).or_default().push(id);
                }
                pool.by_expr[id as usize].push(pool.entries.len() as u32);
                pool.entries.push(Entry { expr_id: id, oracle: outcome.clone(), ticks: *ticks, trace: *trace, ..e });
            }
            other => {
                match other {
                    Iso::StepCap => st.dropped_stepcap += 1,
                    Iso::Signal(_) => st.dropped_signal += 1,
                    Iso::Timeout => st.dropped_timeout += 1,
                    _ => st.dropped_broken += 1,
                }
                if st.dropped_examples.len() < 12 {
                    st.dropped_examples.push(format!("{:?}: {} {:?}", other, e.call.ev.name(), e.call.expr));
                }
            }
        }
    }
    for g in cand_groups {
        let mapped: Vec<u32> = g.iter().filter_map(|id| expr_map.get(id).copied()).collect();
        if mapped.len() >= 2 {
            pool.sib_groups.push(mapped);
        }
    }
    st.kept = pool.entries.len();
    pool.assign_text_ids();
    (pool, st)
}

// ---------------------------------------------------------------------------
// Ambient perturbation: the same isolated evaluations, but in a freshly exec'd process (new ASLR layout,
// new pid, later wall-clock time) started with a scrambled environment and another working directory.
// A result that depends on any of those is not a function of (expression, placeholder).

/// `sc_sim iso-batch <in> <out>`: evaluate every call of <in> (JSON lines) in isolation, write outcomes.
pub fn iso_batch_main(input: &str, output: &str, workers: usize) -> i32 {
    if std::env::var("SC_AMBIENT_ONE_CPU").is_ok() {
        // the number of CPUs this process may use is ambient too
        unsafe {
            let mut set: libc::cpu_set_t = std::mem::zeroed();
            if libc::sched_getaffinity(0, std::mem::size_of::<libc::cpu_set_t>(), &mut set) == 0 {
                for cpu in 0..libc::CPU_SETSIZE as usize {
                    if libc::CPU_ISSET(cpu, &set) {
                        let mut one: libc::cpu_set_t = std::mem::zeroed();
                        libc::CPU_SET(cpu, &mut one);
                        libc::sched_setaffinity(0, std::mem::size_of::<libc::cpu_set_t>(), &one);
                        break;
                    }
                }
            }
        }
    }
    let text = match std::fs::read_to_string(input) {
        Ok(t) => t,
        Err(_) => return 2,
    };
    let calls: Vec<Call> = text
        .lines()
        .filter_map(|l| serde_json::from_str::<serde_json::Value>(l).ok())
        .filter_map(|v| Call::from_json(&v))
        .collect();
    let res = isolated_many(&calls, workers, Duration::from_millis(4000));
    let mut out = String::new();
    for r in res {
        match r {
            Iso::Done { outcome, .. } => out.push_str(&format!("{}\n", outcome.encode().replace('\n', "\\n"))),
            other => out.push_str(&format!("novalue {:?}\n", other).replace('\n', " ")),
        }
        if !out.ends_with('\n') {
            out.push('\n');
        }
    }
    if std::fs::write(output, out).is_err() {
        return 2;
    }
    0
}

pub struct AmbientStats {
    pub ran: bool,
    pub reason: String,
    pub calls: usize,
    pub compared: usize,
    pub mismatches: Vec<(Call, String, String)>,
}

/// Evaluate calls in isolation inside a freshly exec'd process with scrambled ambient inputs.
/// Ok(lines): one encoded outcome (or "novalue ...") per call.
pub fn ambient_eval(calls: &[Call], work_dir: &str, workers: usize, seed: u64) -> Result<Vec<String>, String> {
    let _ = std::fs::create_dir_all(work_dir);
    let inp = format!("{}/ambient_in_{}.jsonl", work_dir, std::process::id());
    let outp = format!("{}/ambient_out_{}.txt", work_dir, std::process::id());
    let mut text = String::new();
    for c in calls {
        text.push_str(&c.to_json().to_string());
        text.push('\n');
    }
    if std::fs::write(&inp, text).is_err() {
        return Err("cannot write the sample".into());
    }
    let exe = std::env::current_exe().map_err(|_| "current_exe unknown".to_string())?;
    let status = std::process::Command::new(exe)
        .arg("iso-batch")
        .arg(&inp)
        .arg(&outp)
        .arg("--workers")
        .arg(workers.to_string())
        .env_clear()
        .env("PATH", "/nonexistent")
        .env("HOME", "/nonexistent/home")
        .env("TZ", "Pacific/Kiritimati")
        .env("LANG", "tr_TR.UTF-8")
        .env("LC_ALL", "tr_TR.UTF-8")
        .env("RUST_BACKTRACE", "full")
        .env("RUST_MIN_STACK", "1048576")
        .env("TMPDIR", "/nonexistent/tmp")
        .env("SC_AMBIENT_ONE_CPU", "1")
        .env(format!("SC_AMBIENT_{}", seed), format!("{}", splitmix64(seed)))
        .current_dir("/")
        .stdin(std::process::Stdio::null())
        .status();
    let _ = std::fs::remove_file(&inp);
    match status {
        Ok(s) if s.success() => {}
        other => {
            let _ = std::fs::remove_file(&outp);
            return Err(format!("exec'd evaluator failed: {:?}", other));
        }
    }
    let out = std::fs::read_to_string(&outp).unwrap_or_default();
    let _ = std::fs::remove_file(&outp);
    let lines: Vec<String> = out.lines().map(|l| l.to_string()).collect();
    if lines.len() != calls.len() {
        return Err(format!("expected {} outcomes, got {}", calls.len(), lines.len()));
    }
    Ok(lines)
}

/// Re-evaluate a sample of the pool in an exec'd child with scrambled ambient inputs and compare.
pub fn ambient_recheck(pool: &Pool, every: usize, work_dir: &str, workers: usize, seed: u64) -> AmbientStats {
    let mut st = AmbientStats { ran: false, reason: String::new(), calls: 0, compared: 0, mismatches: Vec::new() };
    // every `every`-th entry, and every malformed / extreme one (inputs whose handling is most likely to consult
    // something ambient: locale-style separators, limits, messages)
    let idx: Vec<usize> = (0..pool.entries.len())
        .filter(|i| every > 0 && (i % every == 0 || matches!(pool.entries[*i].origin, "malformed" | "extreme_shape" | "readme" | "seed_vocabulary" | "edge_tokens" | "boundary_ladder")))
        .collect();
    if idx.is_empty() {
        st.reason = "empty sample".into();
        return st;
    }
    let calls: Vec<Call> = idx.iter().map(|i| pool.entries[*i].call.clone()).collect();
    let lines = match ambient_eval(&calls, work_dir, workers, seed) {
        Ok(l) => l,
        Err(e) => {
            st.reason = e;
            return st;
        }
    };
    st.ran = true;
    st.calls = idx.len();
    for (k, i) in idx.iter().enumerate() {
        if lines[k].starts_with("novalue") {
            continue;
        }
        st.compared += 1;
        let want = pool.entries[*i].oracle.encode().replace('\n', "\\n");
        if lines[k] != want {
            st.mismatches.push((pool.entries[*i].call.clone(), want, lines[k].to_string()));
        }
    }
    st
}
