//! The oracle: isolated first-time evaluation. One forked process per call; that process performs
//! this one call and nothing else, on a big-stack thread, with a counting hook.

use crate::gen::{Entry, Pool};
use crate::proc::{self, Exit, SharedFlag};
use crate::types::*;
use std::cell::Cell;
use std::collections::BTreeMap;
use std::time::Duration;
use string_calculator::verif_hooks::{set_thread_hook, Site};

pub const STACK_BYTES: usize = 64 << 20;
pub const ISOLATED_TICK_CAP: u64 = 50_000;

thread_local! {
    static ISO: Cell<(u64, u64, u64)> = const { Cell::new((0, 0, 0)) }; // ticks, trace hash, cap
}

fn iso_hook(site: Site) {
    ISO.with(|c| {
        let (t, h, cap) = c.get();
        let t = t + 1;
        let mut hh = Hasher64(h);
        hh.u64(site as u64 + 1);
        c.set((t, hh.0, cap));
        if t > cap {
            proc::item_finish(b"cap");
        }
    });
}

pub fn silence_stderr() {
    unsafe {
        let fd = libc::open(b"/dev/null\0".as_ptr() as *const libc::c_char, libc::O_WRONLY);
        if fd >= 0 {
            libc::dup2(fd, 2);
            libc::close(fd);
        }
    }
}

/// Body of an isolated-evaluation child. Returns "o\t<ticks>\t<trace>\t<outcome>".
pub fn isolated_child(call: &Call, cap: u64) -> Vec<u8> {
    silence_stderr();
    let call = call.clone();
    let h = std::thread::Builder::new()
        .stack_size(STACK_BYTES)
        .spawn(move || {
            ISO.with(|c| c.set((0, Hasher64::new().0, cap)));
            set_thread_hook(Some(iso_hook));
            let o = exec_call(&call);
            set_thread_hook(None);
            let (t, h, _) = ISO.with(|c| c.get());
            format!("o\t{}\t{}\t{}", t, h, o.encode()).into_bytes()
        })
        .unwrap_or_else(|_| proc::harness_die("cannot spawn oracle thread"));
    match h.join() {
        Ok(v) => v,
        Err(_) => b"harness-thread-panicked".to_vec(),
    }
}

#[derive(Clone, Debug, PartialEq)]
pub enum Iso {
    Done { outcome: Outcome, ticks: u32, trace: u64 },
    StepCap,
    Signal(i32),
    Timeout,
    Broken(String),
}

pub fn parse_iso(bytes: &[u8], exit: Exit) -> Iso {
    match exit {
        Exit::Timeout => return Iso::Timeout,
        Exit::Signal(s) => return Iso::Signal(s),
        Exit::Code(c) => return Iso::Broken(format!("exit code {}", c)),
        Exit::Ok => {}
    }
    if bytes == b"cap" {
        return Iso::StepCap;
    }
    let s = match std::str::from_utf8(bytes) {
        Ok(s) => s,
        Err(_) => return Iso::Broken("non-utf8".into()),
    };
    let mut it = s.splitn(4, '\t');
    if it.next() != Some("o") {
        return Iso::Broken(s.chars().take(80).collect());
    }
    let ticks = it.next().and_then(|t| t.parse::<u64>().ok());
    let trace = it.next().and_then(|t| t.parse::<u64>().ok());
    let out = it.next().and_then(Outcome::decode);
    match (ticks, trace, out) {
        (Some(t), Some(h), Some(o)) => Iso::Done { outcome: o, ticks: t as u32, trace: h },
        _ => Iso::Broken(s.chars().take(80).collect()),
    }
}

/// Evaluate the given calls in isolation, in parallel. Result order = input order.
pub fn isolated_many(calls: &[Call], workers: usize, timeout: Duration) -> Vec<Iso> {
    let stop = SharedFlag::new();
    let mut res: Vec<Option<Iso>> = vec![None; calls.len()];
    proc::par_map(
        calls.len(),
        workers,
        timeout,
        None,
        &stop,
        |i| isolated_child(&calls[i], ISOLATED_TICK_CAP),
        |i, bytes, exit| {
            res[i] = Some(parse_iso(&bytes, exit));
        },
    );
    res.into_iter().map(|r| r.unwrap_or(Iso::Broken("no result".into()))).collect()
}

#[derive(Clone, Debug, Default)]
pub struct OracleStats {
    pub candidates: usize,
    pub kept: usize,
    pub dropped_stepcap: usize,
    pub dropped_signal: usize,
    pub dropped_timeout: usize,
    pub dropped_broken: usize,
    pub ok: usize,
    pub err: usize,
    pub panic: usize,
    pub rechecked: usize,
    pub isolated_nondeterminism: Vec<(Call, String, String)>,
    pub dropped_examples: Vec<String>,
}

/// Run the oracle over the candidate pool, drop what never returns, re-evaluate a sample a second time.
pub fn oracle_pass(cand: Pool, workers: usize, recheck_every: usize) -> (Pool, OracleStats) {
    let calls: Vec<Call> = cand.entries.iter().map(|e| e.call.clone()).collect();
    let first = isolated_many(&calls, workers, Duration::from_millis(4000));
    let mut st = OracleStats { candidates: calls.len(), ..Default::default() };
    // second, independent isolated evaluation of a sample
    let sample_idx: Vec<usize> = (0..calls.len()).filter(|i| recheck_every > 0 && i % recheck_every == 0).collect();
    let sample_calls: Vec<Call> = sample_idx.iter().map(|i| calls[*i].clone()).collect();
    let second = isolated_many(&sample_calls, workers, Duration::from_millis(4000));
    st.rechecked = sample_idx.len();
    for (k, i) in sample_idx.iter().enumerate() {
        if let (Iso::Done { outcome: a, .. }, Iso::Done { outcome: b, .. }) = (&first[*i], &second[k]) {
            if a != b {
                st.isolated_nondeterminism.push((calls[*i].clone(), a.encode(), b.encode()));
            }
        }
    }
    let mut pool = Pool::default();
    let mut expr_map: BTreeMap<u32, u32> = BTreeMap::new();
    for (i, e) in cand.entries.into_iter().enumerate() {
        match &first[i] {
            Iso::Done { outcome, ticks, trace } => {
                match outcome {
                    Outcome::Ok(_) => st.ok += 1,
                    Outcome::Err(..) => st.err += 1,
                    Outcome::Panic(_) => st.panic += 1,
                }
                let next_id = expr_map.len() as u32;
                let id = *expr_map.entry(e.expr_id).or_insert(next_id);
                if id as usize == pool.by_expr.len() {
                    pool.by_expr.push(Vec::new());
                    pool.by_text.entry(e.call.expr.clone()).or_default().push(id);
                }
                pool.by_expr[id as usize].push(pool.entries.len() as u32);
                pool.entries.push(Entry { expr_id: id, oracle: outcome.clone(), ticks: *ticks, trace: *trace, ..e });
            }
            other => {
                match other {
                    Iso::StepCap => st.dropped_stepcap += 1,
                    Iso::Signal(_) => st.dropped_signal += 1,
                    Iso::Timeout => st.dropped_timeout += 1,
                    _ => st.dropped_broken += 1,
                }
                if st.dropped_examples.len() < 12 {
                    st.dropped_examples.push(format!("{:?}: {} {:?}", other, e.call.ev.name(), e.call.expr));
                }
            }
        }
    }
    st.kept = pool.entries.len();
    (pool, st)
}
