// `getrandom` must be visible to dlsym(): std looks the symbol up dynamically ("a weak symbol allows
// interposition") before falling back to the raw system call, so the simulator's definition (src/tick.rs) has to
// be in the executable's dynamic symbol table.
fn main() {
    println!("cargo:rustc-link-arg-bins=-Wl,--export-dynamic-symbol=getrandom");
    // same for `statx` (std::fs::metadata): see src/disk.rs
    println!("cargo:rustc-link-arg-bins=-Wl,--export-dynamic-symbol=statx");
    println!("cargo:rerun-if-changed=build.rs");
}
